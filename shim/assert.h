/* verif shim used by the "asserteval" build variant only: every assert
 * expression is evaluated (so side effects inside it take place, as in the
 * documented default build) but a false value never aborts.  This isolates
 * "a required computation lives inside an assert" from "the assertion build
 * stops on a failed assertion". */
#undef assert
#define assert(e) ((void)(e))
#ifndef static_assert
#ifndef __cplusplus
#define static_assert _Static_assert
#endif
#endif
