"""Hostile image corpus shared by C07, C18 and C19: valid images of every
supported extension plus structure-aware mutation, truncation at structure
boundaries, extreme header fields and random bytes; and command-line fuzz."""
import gzip
import os
import struct
import zlib

from . import discmodel as dm, flux

EXTS = ['ssd', 'sdd', 'dsd', 'ddd', 'mmb', 'hfe', 'mfm']


def base_image(rng, ext=None, small=True):
    """-> dict(ext, data, boundaries, hot (list of (offset, length) header-like regions), info)"""
    ext = ext or rng.choice(EXTS)
    b = {'ext': ext, 'info': {}}
    if ext in ('ssd', 'sdd'):
        variant = rng.choice(['acorn', 'watford', 'opus' if ext == 'sdd' else 'acorn'])
        s = dm.gen_surface(rng, variant=variant, spt=10 if ext == 'ssd' else 18, maxlen_sectors=8,
                           nfiles=rng.choice([0, 1, 5, 31]))
        data = s.image()
        hot = [(0, 1024), (16 * 256, 512)]
        bounds = [0, 256, 512, 768, 1024, 16 * 256, 17 * 256, 18 * 256, s.spt * 256, len(data)]
        b['info'] = {'variant': variant, 'names': [e.full for e in s.volumes[0].cat.all_entries()][:6]}
    elif ext in ('dsd', 'ddd'):
        spt = 10 if ext == 'dsd' else 18
        s0 = dm.gen_surface(rng, variant=rng.choice(['acorn', 'watford']), spt=spt, maxlen_sectors=8, nfiles=rng.choice([0, 3, 31]))
        tot = min(1023, s0.tracks * spt)
        s1 = dm.gen_surface(rng, variant='acorn', spt=spt, total=tot, tracks=s0.tracks, sid=1, maxlen_sectors=8, nfiles=2)
        data = dm.dsd_image(s0, s1)
        tb = spt * 256
        hot = [(0, 1024), (tb, 1024)]
        bounds = [0, 256, 512, tb, tb + 256, tb + 512, 2 * tb, len(data)]
        b['info'] = {'names': [e.full for e in s0.volumes[0].cat.all_entries()][:6]}
    elif ext == 'mmb':
        slots = {}
        for k in rng.sample(range(511), rng.randint(1, 4)) + [0]:
            s = dm.gen_surface(rng, variant='acorn', spt=10, total=800, tracks=80, maxlen_sectors=4, nfiles=2)
            slots[k] = (rng.choice([0x00, 0x0F, 0xF0, 0xFF]), s.image())
        path = '/dev/shm/verif-mmb-%d-%d.tmp' % (os.getpid(), rng.getrandbits(30))
        dm.mmb_file(path, slots)
        # keep only the table and the first slots (a short MMB is itself a hostile input)
        keep = 8192 + (max(slots) + 1) * dm.MMB_SLOT_BYTES if rng.random() < 0.3 and max(slots) < 12 else 8192 + 204800
        with open(path, 'rb') as f:
            data = f.read(keep)
        os.unlink(path)
        hot = [(0, 8192), (8192, 1024)]
        bounds = [0, 16, 32, 8192, 8192 + 256, 8192 + 512, len(data)]
        b['info'] = {'slots': {k: v[0] for k, v in slots.items()}}
    elif ext in ('hfe', 'mfm'):
        enc = 'mfm' if ext == 'mfm' else rng.choice(['fm', 'mfm'])
        spt = 10 if enc == 'fm' else rng.choice([16, 18])
        tracks = rng.choice([1, 2, 3, 5]) if small else rng.choice([35, 40])
        sides = rng.choice([1, 1, 2])
        total = max(3, min(tracks * spt, 1023))
        imgs = []
        for sd in range(sides):
            ents = [dm.Entry('$', 'F%d' % sd, False, 0, 0, 300, 2, rng.randbytes(300))] if total > 5 else []
            cat = dm.Cat(b'FLUX', 0, 1, 0, total, ents)
            s = dm.Surface('acorn', tracks, spt, [dm.Volume(None, 0, tracks * spt, 0, cat)], rng.getrandbits(16), sd)
            imgs.append(s.image())
        params = flux.FluxParams(rng, enc, spt)
        per = []
        odd = rng.choice([None, None, 'size', 'mixed-size', 'head', 'cyl', 'dup', 'one-based', 'deleted', 'extra'])
        b['info']['odd_flux'] = odd
        for sd in range(sides):
            if odd is None:
                per.append(flux.encode_surface(rng, imgs[sd], tracks, spt, enc, sd, params))
                continue
            # CRC-valid but unusual recordings: other sector sizes, wrong address fields,
            # duplicate / 1-based / surplus records, deleted-data marks
            trs = []
            code = rng.choice([0, 2, 3])
            for t in range(tracks):
                secs = {rr: imgs[sd][(t * spt + rr) * 256:(t * spt + rr + 1) * 256] for rr in range(spt)}
                kw = dict(order=params.order(rng, spt, t), gap1=params.gap1, gap3=params.gap3, sync=params.sync,
                          gap2=params.gap2, index_mark=params.index_mark)
                cyl, head, size_code, deleted = t, sd, 1, ()
                if odd == 'size':
                    n = 2 if code == 2 else (1 if code == 3 else spt)
                    secs = {rr: rng.randbytes(128 << code) for rr in range(n)}
                    kw['order'] = list(range(n))
                    size_code = code
                elif odd == 'head':
                    head = rng.choice([1 - sd, 2, 255])
                elif odd == 'cyl':
                    cyl = rng.choice([t + 1, 255, 0])
                elif odd == 'dup':
                    kw['order'] = kw['order'] + [kw['order'][0]]
                elif odd == 'one-based':
                    secs = {rr + 1: v for rr, v in secs.items()}
                    kw['order'] = [x + 1 for x in kw['order']]
                elif odd == 'deleted':
                    deleted = tuple(rng.sample(range(spt), rng.randint(1, 3)))
                elif odd == 'extra':
                    secs[spt] = rng.randbytes(256)
                    secs[200] = rng.randbytes(256)
                    kw['order'] = kw['order'] + [spt, 200]
                fn = flux.fm_track if enc == 'fm' else flux.mfm_track
                tr = fn(cyl, head, secs, size_code=size_code, deleted=deleted, **kw)
                if odd == 'mixed-size' and t == tracks - 1:
                    big = {0: rng.randbytes(128 << code)}
                    tr2 = fn(cyl, head, big, size_code=code, order=[0], gap1=4, gap3=4, sync=params.sync, gap2=params.gap2)
                    tr.c += tr2.c
                trs.append(tr)
            per.append(trs)
        if ext == 'mfm':
            d = {(t, sd): flux.pack_msb_first(per[sd][t].c) for sd in range(sides) for t in range(tracks)}
            data = flux.hxcmfm_file(d, tracks, sides)
            nrec = tracks * sides
            hot = [(0, 19 + 11 * nrec)]
            bounds = [0, 7, 19] + [19 + 11 * k for k in range(nrec + 1)] + [512, len(data)]
        else:
            ver = rng.choice([1, 3])
            packed = []
            for sd in range(sides):
                lst = []
                for tr in per[sd]:
                    raw = flux.pack_lsb_first(flux.fm_to_hfe_cells(tr.c) if enc == 'fm' else tr.c)
                    if ver == 3:
                        raw, _ = flux.insert_v3_opcodes(rng, raw, n=rng.randrange(0, 6))
                    lst.append(raw)
                packed.append(lst)
            data = flux.hfe_file(packed[0], packed[1] if sides == 2 else None, 2 if enc == 'fm' else 0, ver,
                                 lut_exact=rng.random() < 0.5, pad_last=rng.random() < 0.6)
            hot = [(0, 26), (512, 4 * tracks)]
            bounds = [0, 8, 26, 512, 512 + 4 * tracks, 1024, 1024 + 512, len(data)]
        b['info'].update({'enc': enc, 'spt': spt, 'tracks': tracks, 'sides': sides})
    b['data'] = data
    b['hot'] = hot
    b['bounds'] = sorted(set(x for x in bounds if 0 <= x <= len(data)))
    return b


EXTREME8 = [0, 1, 2, 3, 0x7F, 0x80, 0xF8, 0xFE, 0xFF]
EXTREME16 = [0, 1, 2, 0x7FFF, 0x8000, 0xFFFE, 0xFFFF]
EXTREME32 = [0, 1, 0x7FFFFFFF, 0x80000000, 0xFFFFFFFE, 0xFFFFFFFF, 0x10000000]


def mutate(rng, b):
    """-> (bytes, description)"""
    data = bytearray(b['data'])
    ext = b['ext']
    k = rng.random()
    n = len(data)
    if k < 0.08:
        return bytes(data), 'valid'
    if k < 0.3:
        # byte / bit edits biased to header-like regions
        edits = rng.choice([1, 1, 2, 4, 16])
        for _ in range(edits):
            if rng.random() < 0.8 and b['hot']:
                off, ln = rng.choice(b['hot'])
                pos = off + rng.randrange(max(1, ln))
            else:
                pos = rng.randrange(max(1, n))
            if pos < n:
                data[pos] = rng.choice(EXTREME8 + [data[pos] ^ (1 << rng.randrange(8)), rng.getrandbits(8)])
        return bytes(data), 'edits:%d' % edits
    if k < 0.5:
        # truncation at a structure boundary +-1, or at 0..32 bytes
        if rng.random() < 0.3:
            cut = rng.randrange(0, 33)
        else:
            cut = rng.choice(b['bounds']) + rng.choice([-1, 0, 1])
        cut = max(0, min(n, cut))
        return bytes(data[:cut]), 'truncate:%d' % cut
    if k < 0.78:
        # extreme values in length / offset / count fields
        what = 'extreme'
        if ext == 'hfe':
            f = rng.choice(['tracks', 'sides', 'enc', 'lutoff', 'lutent', 'sig', 'alt'])
            if f == 'tracks':
                data[9] = rng.choice(EXTREME8)
            elif f == 'sides':
                data[10] = rng.choice(EXTREME8)
            elif f == 'enc':
                data[11] = rng.choice(EXTREME8 + [4, 5])
            elif f == 'lutoff':
                data[18:20] = struct.pack('<H', rng.choice(EXTREME16 + [n // 512, n // 512 + 1]))
            elif f == 'lutent' and n >= 1024:
                t = rng.randrange(0, max(1, b['info']['tracks']))
                off = 512 + 4 * t
                if rng.random() < 0.5:
                    data[off:off + 2] = struct.pack('<H', rng.choice(EXTREME16 + [n // 512 - 1, n // 512, n // 512 + 1]))
                else:
                    data[off + 2:off + 4] = struct.pack('<H', rng.choice(EXTREME16 + [511, 512, 513]))
            elif f == 'sig':
                data[0:8] = rng.choice([b'HXCPICFE', b'HXCHFEV3', b'HXCHFEV4', b'\0' * 8, b'HXCPICF'])[:8].ljust(8, b'\0')
            else:
                data[20:26] = bytes(rng.choice(EXTREME8) for _ in range(6))
            what = 'hfe:' + f
        elif ext == 'mfm':
            f = rng.choice(['tracks', 'sides', 'listoff', 'rec-size', 'rec-off', 'rec-id', 'sig'])
            nrec = b['info']['tracks'] * b['info']['sides']
            rec = 19 + 11 * rng.randrange(max(1, nrec))
            if f == 'tracks':
                data[7:9] = struct.pack('<H', rng.choice(EXTREME16))
            elif f == 'sides':
                data[9] = rng.choice(EXTREME8)
            elif f == 'listoff':
                data[15:19] = struct.pack('<I', rng.choice(EXTREME32 + [n - 1, n, n + 1, 18, 20]))
            elif f == 'rec-size' and rec + 11 <= n:
                data[rec + 3:rec + 7] = struct.pack('<I', rng.choice(EXTREME32 + [n, n + 1]))
            elif f == 'rec-off' and rec + 11 <= n:
                data[rec + 7:rec + 11] = struct.pack('<I', rng.choice(EXTREME32 + [n - 1, n, n + 1]))
            elif f == 'rec-id' and rec + 11 <= n:
                data[rec:rec + 3] = struct.pack('<HB', rng.choice(EXTREME16), rng.choice(EXTREME8))
            else:
                data[0:7] = rng.choice([b'HXCMFM\0', b'HXCMFM1', b'\0' * 7])
            what = 'mfm:' + f
        elif ext == 'mmb':
            f = rng.choice(['status', 'header', 'name'])
            k2 = rng.randrange(511)
            if f == 'status':
                for _ in range(rng.choice([1, 5, 511])):
                    k2 = rng.randrange(511)
                    data[16 + 16 * k2 + 15] = rng.choice([0x00, 0x0F, 0xF0, 0xFF, 0x01, 0x80])
            elif f == 'header':
                data[0:16] = bytes(rng.choice(EXTREME8) for _ in range(16))
            else:
                data[16 + 16 * k2:16 + 16 * k2 + 12] = bytes(rng.getrandbits(8) for _ in range(12))
            what = 'mmb:' + f
        else:
            # catalogue fields (side 0; sector dumps)
            f = rng.choice(['count', 'total', 'entry', 'title', 'opus16', 'watford', 'hdfs'])
            if n >= 512:
                if f == 'count':
                    data[256 + 5] = rng.choice(EXTREME8 + [8, 0xF0, 7, 9])
                elif f == 'total':
                    data[256 + 6] = (data[256 + 6] & 0xFC) | rng.choice([0, 3])
                    data[256 + 7] = rng.choice(EXTREME8)
                elif f == 'entry':
                    e = 8 + 8 * rng.randrange(31)
                    data[256 + e:256 + e + 8] = bytes(rng.choice(EXTREME8) for _ in range(8))
                elif f == 'title':
                    data[0:8] = bytes(rng.choice([0, 0x20, 0x7F, 0x80, 0xFF, 0x1B]) for _ in range(8))
                elif f == 'opus16' and n >= 17 * 256:
                    o = 16 * 256
                    data[o + rng.choice([0, 1, 2, 3, 4, 8, 10, 12, 22])] = rng.choice(EXTREME8 + [18, 35, 40, 80])
                elif f == 'watford' and n >= 1024:
                    data[512:520] = b'\xAA' * 8
                    data[768 + 5] = rng.choice(EXTREME8 + [8, 16])
                else:
                    data[256 + 6] |= rng.choice([4, 8, 12])
            what = 'cat:' + f
        return bytes(data), what
    if k < 0.86:
        return bytes(rng.getrandbits(8) for _ in range(rng.choice([0, 1, 2, 100, 512, 1024, 5000, 70000]))), 'random'
    if k < 0.93:
        # duplicate / swap / zero a block
        if n > 1024:
            a = rng.randrange(0, n - 512)
            ln = rng.choice([256, 512, 4096])
            op = rng.choice(['zero', 'dup', 'ff'])
            if op == 'zero':
                data[a:a + ln] = bytes(min(ln, n - a))
            elif op == 'ff':
                data[a:a + ln] = b'\xff' * min(ln, n - a)
            else:
                c = rng.randrange(0, n - 512)
                data[a:a + ln] = data[c:c + ln]
            return bytes(data[:n]), 'block:' + op
        return bytes(data), 'valid'
    # append garbage / extend
    return bytes(data) + bytes(rng.getrandbits(8) for _ in range(rng.choice([1, 255, 256, 257, 5000]))), 'extended'


def gz_wrap(rng, raw):
    """-> (bytes, description): valid and hostile gzip encodings of raw"""
    k = rng.random()
    good = gzip.compress(raw, rng.choice([0, 1, 6, 9]))
    if k < 0.45:
        return good, 'gz:valid'
    if k < 0.55:
        h = len(raw) // 2
        return gzip.compress(raw[:h], 6) + gzip.compress(raw[h:], 1), 'gz:two-members'
    if k < 0.7:
        cut = rng.choice([0, 1, 2, 9, 10, 11, 18, len(good) - 9, len(good) - 8, len(good) - 4, len(good) - 1,
                          rng.randrange(len(good))])
        return good[:max(0, cut)], 'gz:truncated'
    if k < 0.85:
        g = bytearray(good)
        for _ in range(rng.choice([1, 1, 3])):
            pos = rng.choice([rng.randrange(len(g)), rng.randrange(min(12, len(g))), len(g) - 1 - rng.randrange(min(8, len(g)))])
            g[pos] ^= 1 << rng.randrange(8)
        return bytes(g), 'gz:bitflip'
    if k < 0.9:
        return raw, 'gz:not-gzip'
    if k < 0.95:
        return good + bytes(rng.getrandbits(8) for _ in range(rng.choice([1, 8, 100]))), 'gz:trailing-garbage'
    # header with optional fields
    co = zlib.compressobj(6, zlib.DEFLATED, -15)
    body = co.compress(raw) + co.flush()
    flg = rng.choice([4, 8, 16, 2, 4 | 8 | 16])
    hdr = bytearray(b'\x1f\x8b\x08' + bytes([flg]) + b'\0\0\0\0\0\x03')
    if flg & 4:
        ex = bytes(rng.getrandbits(8) for _ in range(rng.choice([0, 5, 600])))
        hdr += struct.pack('<H', len(ex)) + ex
    if flg & 8:
        hdr += b'name.ssd\0'
    if flg & 16:
        hdr += b'comment\0'
    if flg & 2:
        hdr += struct.pack('<H', zlib.crc32(bytes(hdr)) & 0xFFFF)
    return bytes(hdr) + body + struct.pack('<II', zlib.crc32(raw) & 0xFFFFFFFF, len(raw) & 0xFFFFFFFF), 'gz:optional-header-fields'


DRIVE_ARGS = ['0', '1', '2', '3', '4', '510', '511', '1022', '-1', '4294967295', '4294967296', '99999999999999999999',
              '0A', '0B', '0H', '0I', '0a', '2A', 'A', '', ' ', '0x1', '1.5', '0 ', ':0', '00', '+1', '0AB']
NAMES = ['F0', '$.F0', ':0.$.F0', ':2.$.F1', 'X', '', '.', '..', ':', ':0', ':0.', ':0..', '$.', '#.*', '*', ':0A.$.F0',
         ':99999999999999999999.$.X', 'A.B.C', 'averyveryverylongname', '-x', '--binary', ':-1.$.X', '\x80', '$.\xff']
WILDS = ['#.*', '*', '*.*', ':0.#.*', ':2.*', '#', '', '.', '*.', '^', '[', ']', '\\', '(', ':0A.#.*', ':1.#.*', 'F#', '$.*',
         ':0.$.F*', '#.#######', '########', ':x.*', ':.*', '*.*.*', ':x.*', ':.*', ':0$.*', ':0', ':0A', ':0*',
         ':99999999999999999999.*', ':4294967296.$.*', ':0.', ':0..', ':0.$', ':0.$.']


def command_line(rng, info=None):
    """-> (global options before --file, command + args)"""
    names = list(NAMES)
    if info and info.get('names'):
        names += info['names'] + [':0.' + n for n in info['names']]
    drive_args = list(DRIVE_ARGS)
    if info and info.get('slots'):
        # MMB: aim at the drives of the slots (slot k is drive 2k, or k under --drive-first), whatever their status
        for k in info['slots']:
            drive_args += [str(2 * k), str(k)] * 4
    pre = []
    if rng.random() < 0.25:
        pre.append('--verbose')
    if rng.random() < 0.1:
        pre.append('--show-config')
    if rng.random() < 0.1:
        pre += ['--ui', rng.choice(['acorn', 'watford', 'opus', 'Acorn', 'bogus', ''])]
    if rng.random() < 0.1:
        pre += ['--dir', rng.choice(['$', 'A', '', 'AB', '\x80', '.'])]
    if rng.random() < 0.1:
        pre += ['--drive', rng.choice(drive_args)]
    if rng.random() < 0.08:
        pre.append(rng.choice(['--drive-first', '--drive-physical']))
    c = rng.choice(['cat', 'info', 'type', 'list', 'dump', 'free', 'space', 'sector-map', 'show-titles', 'dump-sector',
                    'extract-files', 'extract-unused', 'help', 'bogus', '', '--help'])
    if c in ('cat', 'free', 'sector-map'):
        args = [c] + ([rng.choice(drive_args)] if rng.random() < 0.5 else []) + (['extra'] if rng.random() < 0.05 else [])
    elif c == 'space':
        args = [c] + [rng.choice(drive_args) for _ in range(rng.choice([0, 1, 1, 2, 3]))]
    elif c == 'show-titles':
        args = [c] + [rng.choice(drive_args) for _ in range(rng.choice([0, 0, 1, 2]))]
    elif c == 'info':
        args = [c] + [rng.choice(WILDS) for _ in range(rng.choice([0, 1, 1, 1, 2]))]
    elif c in ('type', 'list', 'dump'):
        args = [c] + (['--binary'] if c == 'type' and rng.random() < 0.4 else []) + \
               [rng.choice(names) for _ in range(rng.choice([0, 1, 1, 1, 2]))]
    elif c == 'dump-sector':
        if rng.random() < 0.5:
            args = [c, rng.choice(drive_args), rng.choice(['0', '0', '1', '39', '79', '80']), rng.choice(['0', '0', '1', '9', '10', '17'])]
        else:
            args = [c] + [rng.choice(drive_args + ['0', '0', '1', '9', '10', '17', '18', '39', '40', '79', '80'])
                          for _ in range(rng.choice([3, 3, 3, 2, 4, 0]))]
    elif c in ('extract-files', 'extract-unused'):
        args = [c] + (['@DEST@'] if rng.random() < 0.85 else rng.choice([[], ['@DEST@', 'x'], ['/nonexistent/dir'], ['']]))
    elif c == 'help':
        args = [c] + rng.choice([[], ['cat'], ['bogus'], ['cat', 'info', 'type']])
    elif c == '':
        args = []
    else:
        args = [c]
    return pre, args
