"""Case runner: fans cases out over a process pool, aggregates what the
monitors observed, routes every violation key through known-findings
matching, materialises replays and writes the evidence file."""
import json
import multiprocessing as mp
import os
import random
import shutil
import sys
import tempfile
import time
import traceback

from . import VERIF, HarnessError

KNOWN_FILE = os.path.join(VERIF, 'known_findings.txt')
REPLAY_ROOT = os.path.join(VERIF, 'replays')
EVIDENCE_DIR = os.environ.get('VERIF_EVIDENCE_DIR', os.path.join(VERIF, 'evidence'))
WORKERS = int(os.environ.get('VERIF_WORKERS', '16'))


def scratch_root():
    base = '/dev/shm' if os.path.isdir('/dev/shm') and os.access('/dev/shm', os.W_OK) \
        else os.environ.get('TMPDIR', '/var/tmp')
    return base


class Scratch(object):
    """Per-case scratch directory, removed on exit."""

    def __init__(self, tag='c'):
        self.tag = tag

    def __enter__(self):
        self.path = tempfile.mkdtemp(prefix='verif-%s-' % self.tag, dir=scratch_root())
        return self.path

    def __exit__(self, *a):
        shutil.rmtree(self.path, ignore_errors=True)


def load_known():
    known, fixed = {}, []
    if not os.path.exists(KNOWN_FILE):
        return known, fixed
    for line in open(KNOWN_FILE):
        line = line.strip()
        if not line or line.startswith('#'):
            continue
        if line.startswith('known:'):
            parts = line[len('known:'):].split(None, 2)
            prop = parts[0].split('=', 1)[1]
            key = parts[1].split('=', 1)[1]
            what = parts[2] if len(parts) > 2 else ''
            known[(prop, key)] = what
        elif line.startswith('fixed:'):
            fixed.append(line)
    return known, fixed


class CaseResult(object):
    """What one case observed.  Plain data so it pickles."""

    def __init__(self):
        self.execs = 0
        self.sigs = []          # signatures of distinct non-trivial cases
        self.viol = []          # dicts: key, what, detail, files, argv
        self.cov = {}           # counters (int) or collections (list -> set union)
        self.sample = None
        self.inconclusive = []
        self.events = 0         # monitor events observed (hook records, compared blocks...)

    def add(self, name, n=1):
        self.cov[name] = self.cov.get(name, 0) + n

    def seen(self, name, value):
        self.cov.setdefault(name, set()).add(value)

    def violation(self, key, what, detail=None, files=None, argv=None):
        self.viol.append({'key': key, 'what': what, 'detail': detail or {},
                          'files': files or {}, 'argv': argv})


_CASE_FN = None


def _worker(spec):
    try:
        random.seed(repr(spec))
        return spec, _CASE_FN(spec), None
    except HarnessError as e:
        return spec, None, 'HarnessError: %s' % e
    except Exception:
        return spec, None, traceback.format_exc()


def _jsonable(x):
    if isinstance(x, bytes):
        return x.decode('latin1')
    if isinstance(x, (set, frozenset)):
        return sorted(_jsonable(v) for v in x)
    if isinstance(x, dict):
        return {str(k): _jsonable(v) for k, v in x.items()}
    if isinstance(x, (list, tuple)):
        return [_jsonable(v) for v in x]
    return x


def write_replay(prop, spec, v, idx):
    d = os.path.join(REPLAY_ROOT, prop, '%s-%03d' % (str(v['key']).replace('/', '_').replace(':', '_')[:60], idx))
    shutil.rmtree(d, ignore_errors=True)
    os.makedirs(d)
    for name, data in v['files'].items():
        p = os.path.join(d, os.path.basename(name))
        with open(p, 'wb') as f:
            f.write(data if isinstance(data, bytes) else str(data).encode('latin1'))
    with open(os.path.join(d, 'replay.json'), 'w') as f:
        json.dump({'property': prop, 'case': _jsonable(spec), 'key': v['key'], 'what': v['what'],
                   'argv': v['argv'], 'detail': _jsonable(v['detail'])}, f, indent=1)
    return d


def run_check(prop, level, case_fn, specs, tier, seed, rule, assumptions=(),
              min_events=1, extra_cov=None, workers=None, sample_limit=6,
              post=None):
    """Run all case specs; returns the process exit status (0/1/2)."""
    global _CASE_FN
    _CASE_FN = case_fn
    t0 = time.time()
    known, _fixed = load_known()
    specs = list(specs)
    only = os.environ.get('VERIF_ONLY_SPEC')
    if only:
        # replay mode: run exactly the recorded case again
        want = json.loads(only)
        specs = [sp for sp in specs if _jsonable(sp) == want]
        if not specs:
            raise HarnessError('the recorded case %r is not among the cases of this tier/seed' % (want,))
        min_events = 0
    agg = CaseResult()
    sigs = set()
    samples = []
    harness_errors = []
    viols = []
    n_done = 0
    workers = workers or WORKERS
    if workers > 1 and len(specs) > 1:
        ctx = mp.get_context('fork')
        pool = ctx.Pool(workers)
        it = pool.imap_unordered(_worker, specs, chunksize=1)
    else:
        pool = None
        it = map(_worker, specs)
    try:
        for spec, res, err in it:
            n_done += 1
            if err is not None:
                harness_errors.append((spec, err))
                continue
            agg.execs += res.execs
            agg.events += res.events
            sigs.update(res.sigs)
            for k, val in res.cov.items():
                if isinstance(val, (set, frozenset, list)):
                    agg.cov.setdefault(k, set()).update(val)
                else:
                    agg.cov[k] = agg.cov.get(k, 0) + val
            agg.inconclusive.extend(res.inconclusive)
            for v in res.viol:
                viols.append((spec, v))
            if res.sample is not None and len(samples) < sample_limit:
                samples.append(_jsonable(res.sample))
    finally:
        if pool is not None:
            pool.terminate()
            pool.join()
    if post is not None:
        # whole-run obligations (e.g. "every byte value was seen")
        for v in post(agg, sigs) or []:
            viols.append(('post', v))

    # replays of earlier runs of this check are stale now
    if not only:
        shutil.rmtree(os.path.join(REPLAY_ROOT, prop), ignore_errors=True)
    # known-findings matching, de-duplicated by key
    exit_code = 0
    reported = {}
    known_hit = {}
    for spec, v in viols:
        kk = (prop, v['key'])
        if kk in known:
            known_hit[kk] = known_hit.get(kk, 0) + 1
            continue
        reported.setdefault(v['key'], []).append((spec, v))
    for kk, n in sorted(known_hit.items()):
        print('KNOWN-FINDING: property=%s %s [key=%s, observed %d time(s) in this run]'
              % (prop, known[kk], kk[1], n))
    nviol = 0
    for key, lst in sorted(reported.items()):
        for i, (spec, v) in enumerate(lst[:3]):
            d = write_replay(prop, spec, v, i)
            print('VIOLATION property=%s replay=%s' % (prop, d))
            print('  key=%s what=%s' % (key, v['what']))
            nviol += 1
        if len(lst) > 3:
            print('  (%d further cases with key %s not materialised)' % (len(lst) - 3, key))
        exit_code = 1

    cov = {
        'evaluations': agg.execs,
        'distinct_nontrivial': len(sigs),
        'rule': rule,
        'samples': samples or [{'note': 'no sample recorded'}],
        'cases': n_done,
        'monitor_events': agg.events,
        'inconclusive': len(agg.inconclusive),
        'known_findings_observed': {k[1]: n for k, n in known_hit.items()},
        'violation_keys': sorted(reported),
    }
    for k, val in agg.cov.items():
        if isinstance(val, set):
            cov[k + '_distinct'] = len(val)
            if len(val) <= 40:
                cov[k] = _jsonable(val)
        else:
            cov[k] = val
    if extra_cov:
        cov.update(extra_cov)
    if agg.inconclusive:
        cov['inconclusive_notes'] = agg.inconclusive[:10]

    if harness_errors:
        for spec, err in harness_errors[:5]:
            sys.stderr.write('HARNESS ERROR in case %r:\n%s\n' % (spec, err))
        if exit_code == 0:
            exit_code = 2
    if exit_code == 0 and not only and (agg.execs == 0 or len(sigs) < 2 or agg.events < min_events):
        sys.stderr.write('INCONCLUSIVE: monitors observed too little (execs=%d distinct=%d events=%d)\n'
                         % (agg.execs, len(sigs), agg.events))
        exit_code = 2
    wall = time.time() - t0
    if exit_code != 2 and agg.execs > 0 and len(sigs) >= 2 and not only:
        os.makedirs(EVIDENCE_DIR, exist_ok=True)
        ev = {'property_id': prop, 'tier': tier, 'seed': seed, 'level': level,
              'coverage': cov, 'assumptions': list(assumptions), 'wall_s': round(wall, 2),
              'violations': nviol}
        tmp = os.path.join(EVIDENCE_DIR, '.%s.json.tmp' % prop)
        with open(tmp, 'w') as f:
            json.dump(ev, f, indent=1, sort_keys=True)
        os.replace(tmp, os.path.join(EVIDENCE_DIR, '%s.json' % prop))
    print('%s tier=%s seed=%d cases=%d executions=%d distinct=%d events=%d violations=%d '
          'known=%d inconclusive=%d wall=%.1fs -> exit %d'
          % (prop, tier, seed, n_done, agg.execs, len(sigs), agg.events, nviol,
             sum(known_hit.values()), len(agg.inconclusive), wall, exit_code))
    return exit_code
