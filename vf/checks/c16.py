"""C16 -- every attached image gets its own drive number and commands read the
right one.

History monitor: option histories over {--drive-first, --drive-physical,
one-sided ssd, two-sided dsd, one-sided HFE, two-sided HxC MFM, MMB}; after
every prefix the attach events (hook A), the --show-config report, the titles
and unique files actually read, and the reference rules of the statement are
compared.
"""
import itertools
import os
import re

from .. import build, discmodel as dm, flux, refmodel as rm
from ..dfsutil import case_rng, write_file
from ..execu import run, clean_failure_key
from ..runner import run_check, CaseResult, Scratch

PROP = 'C16'
BIN = {}
SYMS = ['first', 'physical', 'ssd', 'dsd', 'hfe', 'mfm2', 'ssd2', 'mmb']
MMB_SLOTS = [0, 1, 2, 7, 255, 510]


def tiny_surface(rng, title, spt=10, tracks=40, sid=0):
    total = min(tracks * spt, 1023)
    body = ('unique body of %s' % title).encode()
    ents = [dm.Entry('$', 'ID', False, 0, 0, len(body), 2, body)]
    cat = dm.Cat(title.encode(), 0, 1, 0, total, ents)
    return dm.Surface('acorn', tracks, spt, [dm.Volume(None, 0, tracks * spt, 0, cat)], rng.getrandbits(16), sid)


def make_item(rng, sym, pos, tmp):
    """-> (path, [titles of its surfaces in attach order], sparse slot map for mmb)"""
    tag = 'P%d' % pos
    if sym == 'ssd':
        s = tiny_surface(rng, tag + 'SSD')
        p = os.path.join(tmp, tag + '.ssd')
        write_file(p, s.image())
        return p, [tag + 'SSD'], None
    if sym == 'ssd2':
        # two-sided non-interleaved image: side 0 then side 1
        s0, s1 = tiny_surface(rng, tag + 'TWO0'), tiny_surface(rng, tag + 'TWO1', sid=1)
        p = os.path.join(tmp, tag + '.ssd')
        write_file(p, s0.image() + s1.image())
        return p, [tag + 'TWO0', tag + 'TWO1'], None
    if sym == 'dsd':
        s0, s1 = tiny_surface(rng, tag + 'DSD0'), tiny_surface(rng, tag + 'DSD1', sid=1)
        p = os.path.join(tmp, tag + '.dsd')
        write_file(p, dm.dsd_image(s0, s1))
        return p, [tag + 'DSD0', tag + 'DSD1'], None
    if sym in ('hfe', 'mfm2'):
        enc = 'fm' if sym == 'hfe' else 'mfm'
        spt = 10 if enc == 'fm' else 18
        sides = 1 if sym == 'hfe' else 2
        tracks = 2
        titles = [tag + ('HFE' if sym == 'hfe' else 'MFM%d' % sd) for sd in range(sides)]
        params = flux.FluxParams(rng, enc, spt)
        per = []
        for sd in range(sides):
            s = tiny_surface(rng, titles[sd], spt=spt, tracks=tracks, sid=sd)
            per.append(flux.encode_surface(rng, s.image(), tracks, spt, enc, sd, params))
        if sym == 'hfe':
            data = flux.hfe_file([flux.pack_lsb_first(flux.fm_to_hfe_cells(tr.c)) for tr in per[0]], None, 2, 1)
            p = os.path.join(tmp, tag + '.hfe')
        else:
            d = {(t, sd): flux.pack_msb_first(per[sd][t].c) for sd in range(sides) for t in range(tracks)}
            data = flux.hxcmfm_file(d, tracks, sides)
            p = os.path.join(tmp, tag + '.mfm')
        write_file(p, data)
        return p, titles, None
    if sym == 'mmb':
        slots = {}
        titles = {}
        for k in MMB_SLOTS:
            t = '%sM%d' % (tag, k)
            s = tiny_surface(rng, t, spt=10, tracks=80)
            slots[k] = (0x0F, s.image())
            titles[k] = t
        p = os.path.join(tmp, tag + '.mmb')
        dm.mmb_file(p, slots)
        return p, None, titles
    raise ValueError(sym)


def parse_config(err):
    """--show-config -> {drive: description or 'unformatted'}"""
    out = {}
    for line in err.decode('latin1').split('\n'):
        m = re.match(r'^Drive\s+(\d+): occupied, (.*)$', line)
        if m:
            out[int(m.group(1))] = m.group(2)
    return out


def surface_key(desc, path_by_name, nsurf):
    """which (image file, surface index) a show-config description or attach record names, or None when the free text
    (which no document fixes) cannot be read that way: the file name must occur in it; a file with several surfaces
    needs a side or slot number next to the word 'side' / 'slot'"""
    for name, p in path_by_name.items():
        if name in desc:
            if nsurf[p] == 1:
                return (p, 0)
            ms = re.search(r'slot\D{0,24}?(\d+)', desc)
            if ms and nsurf[p] > 2:
                return (p, int(ms.group(1)))
            m = re.search(r'side\s*(\d)', desc)
            if m and nsurf[p] == 2:
                return (p, int(m.group(1)))
            return None
    return None


def parse_titles(out):
    """show-titles -> {drive: title}"""
    t = {}
    for line in out.decode('latin1').split('\n'):
        m = re.match(r'^(\d+): (.*)$', line)
        if m:
            t[int(m.group(1))] = m.group(2)
    return t


def case(spec):
    seed, hist, idx, tier = spec
    rng = case_rng(seed, PROP, (hist, idx))
    res = CaseResult()
    dfsbin = BIN['san']['dfs']
    with Scratch('c16') as tmp:
        items = {}
        for pos, sym in enumerate(hist):
            if sym not in ('first', 'physical'):
                items[pos] = make_item(rng, sym, pos, tmp)
        files = {'history.txt': ' '.join(hist).encode()}
        prev_map = {}
        occupied_by = {}           # drive -> position of the image (reference bookkeeping from observed attach order)
        policy = 'physical'
        for plen in range(1, len(hist) + 1):
            sym = hist[plen - 1]
            if sym in ('first', 'physical'):
                policy = sym
                if plen != len(hist):
                    continue
            opts = []
            for pos in range(plen):
                s = hist[pos]
                if s == 'first':
                    opts.append('--drive-first')
                elif s == 'physical':
                    opts.append('--drive-physical')
                else:
                    opts += ['--file', items[pos][0]]
            if not any(s not in ('first', 'physical') for s in hist[:plen]):
                continue
            r_ = run([dfsbin, '--show-config'] + opts + ['help'], trace=True, timeout=60)
            res.execs += 1
            k = clean_failure_key(r_, (0, 1, 2))
            if k:
                res.violation('attach:%s' % k, 'unclean termination while attaching %r' % (hist[:plen],), r_.brief(), files, r_.argv)
                return res
            if r_.rc != 0:
                res.violation('attach-failed', 'attaching %r failed' % (hist[:plen],), r_.brief(), files, r_.argv)
                return res
            cfg = parse_config(r_.err)
            attach = []
            for line in r_.trace.splitlines():
                f = line.split(None, 3)
                if f[0] == 'A':
                    attach.append((int(f[1]), f[2], f[3] if len(f) > 3 else ''))
            res.events += len(attach)
            res.add('hook_A_attach_events', len(attach))
            names = {os.path.basename(items[p][0]): items[p][0] for p in items if p < plen}
            # ---- I1: distinct drive numbers, each attach event once
            drives = [a[0] for a in attach]
            if len(drives) != len(set(drives)):
                dup = sorted(d for d in set(drives) if drives.count(d) > 1)[:5]
                res.violation('drive-number-shared', 'two surfaces were attached to the same drive number(s) %r' % dup,
                              {'history': hist[:plen], 'attach_events': attach[:12]}, files, r_.argv)
                return res
            # identity of the surface on each drive: from what the drive delivers (every generated surface has a unique
            # title), and from the description wherever that free text can be read; the two must agree
            nsurf = {items[p][0]: (511 if items[p][2] is not None else len(items[p][1])) for p in items if p < plen}
            rt = run([dfsbin] + opts + ['show-titles'], timeout=120)
            res.execs += 1
            k = clean_failure_key(rt, (0, 1, 2))
            if k:
                res.violation('attach:%s' % k, 'unclean termination of show-titles with %r' % (hist[:plen],), rt.brief(), files, rt.argv)
                return res
            by_title = {}
            for p in items:
                if p < plen:
                    path, titles, slots = items[p]
                    if slots is None:
                        for i, t in enumerate(titles):
                            by_title[t] = (path, i)
                    else:
                        for sl, t in slots.items():
                            by_title[t] = (path, sl)
            content = {d: by_title.get(t.rstrip()) for d, t in parse_titles(rt.out).items()}
            amap = {}
            unread = 0
            for d, fmt, desc in attach:
                kd = surface_key(desc, names, nsurf)
                kc = content.get(d)
                if kd is None:
                    unread += 1
                if kd is not None and kc is not None and kd != kc:
                    res.violation('wrong-surface-read:show-titles', 'drive %d was attached as %r but show-titles delivers the '
                                  'title of %r' % (d, desc, kc), {'history': hist[:plen], 'run': rt.brief()}, files, rt.argv)
                    return res
                amap[d] = kc if kc is not None else kd
            res.add('attach_descriptions_not_readable', unread)
            expected_surfaces = []
            for p in sorted(items):
                if p < plen:
                    path, titles, slots = items[p]
                    n = 511 if slots is not None else len(titles)
                    expected_surfaces += [(path, i) for i in range(n)]
            titled = sorted(by_title.values())
            got_surfaces = sorted(v for v in amap.values() if v is not None)
            missing = [x for x in titled if x not in got_surfaces][:4]
            stray = [x for x in got_surfaces if x not in expected_surfaces][:4]
            if len(attach) != len(expected_surfaces) or len(set(got_surfaces)) != len(got_surfaces) or missing or stray:
                res.violation('surface-not-attached-exactly-once', 'surfaces missing or duplicated: %d attach events for %d '
                              'surfaces; missing %r, unexpected %r' % (len(attach), len(expected_surfaces), missing, stray),
                              {'history': hist[:plen], 'attached': len(got_surfaces), 'expected': len(expected_surfaces)},
                              files, r_.argv)
                return res
            # ---- I7: --show-config agrees with the attach events: the same drives, and the same surface wherever
            # the description can be read
            cmap = {d: surface_key(desc, names, nsurf) for d, desc in cfg.items()}
            diff = [d for d in set(cmap) | set(amap) if (d in cmap) != (d in amap) or
                    (cmap.get(d) is not None and cmap.get(d) != amap.get(d))][:5]
            res.add('show_config_lines_compared', sum(1 for v in cmap.values() if v is not None))
            if diff:
                res.violation('show-config-disagrees', '--show-config and the attach events disagree for drives %r' % diff,
                              {'history': hist[:plen], 'config': {d: cfg.get(d) for d in diff},
                               'attach': {d: amap.get(d) for d in diff}}, files, r_.argv)
            # ---- I2: nothing attached earlier moved or vanished
            for d, sk in prev_map.items():
                if amap.get(d) != sk:
                    res.violation('earlier-surface-moved', 'drive %d held %r, after attaching %s it holds %r'
                                  % (d, sk, sym, amap.get(d)), {'history': hist[:plen]}, files, r_.argv)
                    return res
            # ---- I3-I5: placement of the image attached by this step
            new = sorted(d for d in amap if d not in prev_map)
            if sym not in ('first', 'physical') and new:
                path = items[plen - 1][0]
                # every new drive belongs to this image (nothing earlier moved, every surface attached once); the
                # surface index is known for the ones that could be identified
                ident = sorted((amap[d][1], d) for d in new if amap[d] is not None and amap[d][0] == path)
                bysurf = [d for _, d in ident]
                if policy == 'physical':
                    for d in new:
                        o = rm.opposite(d)
                        if o in prev_map:
                            res.violation('physical-takes-opposite-side',
                                          'under the physical policy %s was attached to drive %d, the opposite side of '
                                          'drive %d which another image occupies' % (sym, d, o),
                                          {'history': hist[:plen], 'map': {x: amap[x] for x in sorted(amap)[:12]}}, files, r_.argv)
                            break
                    bad = [(a, b) for a, b in zip(ident, ident[1:]) if b[1] - a[1] != 2 * (b[0] - a[0])]
                    if bad and len(new) == 2:
                        res.violation('two-sided-not-n-n2', 'two-sided image at drives %r, not n and n+2' % (bysurf,),
                                      {'history': hist[:plen]}, files, r_.argv)
                    elif bad:
                        res.violation('multi-surface-not-consecutive-sides', 'surfaces of %s not at n, n+2, n+4, ...' % sym,
                                      {'history': hist[:plen], 'first': bysurf[:8], 'surface, drive': bad[:3]}, files, r_.argv)
                else:
                    free = [x for x in range(0, 2000) if x not in prev_map]
                    want = free[:len(new)]
                    if new != want or any(d != want[i] for i, d in ident):
                        res.violation('first-not-lowest-free', 'under --drive-first %s landed on %r, lowest free numbers '
                                      'are %r' % (sym, [d for _, d in ident][:6] or new[:6], want[:6]), {'history': hist[:plen]}, files, r_.argv)
            prev_map = dict(amap)
            res.sigs.append('%s|%d' % (' '.join(hist[:plen]), len(amap)))
        # ---- I6: commands addressed to drive k read the surface attached there
        if prev_map:
            opts = []
            for pos, s in enumerate(hist):
                if s == 'first':
                    opts.append('--drive-first')
                elif s == 'physical':
                    opts.append('--drive-physical')
                else:
                    opts += ['--file', items[pos][0]]
            title_of = {}
            for p, (path, titles, slots) in items.items():
                if slots is None:
                    for i, t in enumerate(titles):
                        title_of[(path, i)] = t
                else:
                    for k, t in slots.items():
                        title_of[(path, k)] = t
            probes = [d for d in sorted(prev_map) if prev_map[d] in title_of]
            if len(probes) > 10:
                probes = rng.sample(probes, 10)
            for d in probes:
                want = title_of[prev_map[d]]
                how = rng.choice(['arg', 'drive-opt', 'colon', 'colon-info'])
                if how == 'arg':
                    argv = [dfsbin] + opts + ['show-titles', str(d)]
                    expect = ('%d: %s\n' % (d, want)).encode()
                elif how == 'drive-opt':
                    # the current drive, with other context options before or after it
                    extra = rng.choice([[], ['--ui', rng.choice(['acorn', 'watford', 'opus'])], ['--dir', '$'], ['--verbose']])
                    ctxo = ['--drive', str(d)] + extra if rng.random() < 0.5 else extra + ['--drive', str(d)]
                    if rng.random() < 0.5:
                        argv = [dfsbin] + opts + ctxo + ['type', '--binary', 'ID']
                        expect = ('unique body of %s' % want).encode()
                    else:
                        argv = [dfsbin] + opts + ctxo + ['info', 'ID']
                        expect = None
                        how = 'drive-opt-info'
                elif how == 'colon-info':
                    # the drive inside a wildcard (any number of digits)
                    argv = [dfsbin] + opts + ['info', rng.choice([':%d.$.ID', ':%d.#.*', ':%d.$.I#']) % d]
                    ln = len(('unique body of %s' % want).encode())
                    r_ = run(argv, timeout=60)
                    res.execs += 1
                    res.events += 1
                    if clean_failure_key(r_, (0, 1, 2)) or r_.rc != 0 or not r_.out.startswith(b'$.ID') or \
                            (b' %06X ' % ln) not in r_.out:
                        res.violation('wrong-surface-read:colon-info', 'info with drive %d inside the wildcard should list $.ID '
                                      'of length %X, got %r (exit %s)' % (d, ln, r_.out[:60], r_.rc),
                                      {'history': hist, 'run': r_.brief()}, files, r_.argv)
                    continue
                else:
                    argv = [dfsbin] + opts + ['type', '--binary', ':%d.$.ID' % d]
                    expect = ('unique body of %s' % want).encode()
                r_ = run(argv, timeout=60)
                res.execs += 1
                res.events += 1
                if expect is None:
                    # info of the unique file: its length identifies the surface
                    ln = len(('unique body of %s' % want).encode())
                    ok = r_.rc == 0 and (b' %06X ' % ln) in r_.out and r_.out.startswith(b'$.ID')
                    # lengths may coincide between surfaces: confirm with the title as well
                    r2 = run(argv[:-2] + ['cat'], timeout=60)
                    res.execs += 1
                    ok = ok and r2.rc == 0 and want.encode() in r2.out.split(b'\n')[0]
                    if not ok:
                        res.violation('wrong-surface-read:%s' % how, 'drive %d (via --drive) should show the disc titled %r'
                                      % (d, want), {'history': hist, 'run': r_.brief(), 'cat': r2.brief()}, files, r_.argv)
                    continue
                if clean_failure_key(r_, (0, 1, 2)) or r_.rc != 0 or r_.out != expect:
                    res.violation('wrong-surface-read:%s' % how, 'drive %d should deliver %r, got %r (exit %s)'
                                  % (d, expect[:40], r_.out[:60], r_.rc), {'history': hist, 'run': r_.brief()}, files, r_.argv)
            # an empty drive number must not deliver anything
            empties = [d for d in range(0, max(prev_map) + 3) if d not in prev_map][:2]
            for d in empties:
                r_ = run([dfsbin] + opts + ['type', '--binary', ':%d.$.ID' % d], timeout=60)
                res.execs += 1
                if r_.rc == 0 or r_.out:
                    res.violation('empty-drive-delivers-data', 'drive %d is empty but type succeeded' % d,
                                  {'history': hist, 'run': r_.brief()}, files, r_.argv)
            # a drive argument with a suffix that is no volume letter: the command either refuses it or addresses
            # the drive the leading number names -- never another surface (such as the current drive)
            titled = [d for d in sorted(prev_map) if prev_map[d] in title_of]
            if len(titled) >= 2:
                d = rng.choice(titled[1:])
                junk = '%d%s' % (d, rng.choice(['x', 'junk', ' ', '.', 'z1', 'AB', '%', '_']))
                cmdj = rng.choice(['cat', 'free', 'space', 'show-titles', 'sector-map', 'info'])
                if cmdj == 'info':
                    clean, dirty = ['info', ':%d.#.*' % d], ['info', ':%s.#.*' % junk]
                else:
                    clean, dirty = [cmdj, str(d)], [cmdj, junk]
                ra = run([dfsbin] + opts + clean, timeout=60)
                rb = run([dfsbin] + opts + dirty, timeout=60)
                res.execs += 2
                res.events += 1
                res.add('junk_suffix_probes', 1)
                kb = clean_failure_key(rb, (0, 1, 2))
                if kb:
                    res.violation('attach:%s' % kb, 'unclean termination for drive argument %r' % junk, rb.brief(), files, rb.argv)
                elif not ((rb.rc != 0 and not rb.out) or (rb.rc, rb.out) == (ra.rc, ra.out)):
                    res.violation('wrong-surface-read:junk-suffix', '%s with the drive argument %r neither failed nor '
                                  'addressed drive %d' % (cmdj, junk, d), {'history': hist, 'clean': ra.brief(), 'junk': rb.brief()},
                                  files, rb.argv)
        res.sample = {'history': list(hist), 'final_map': {str(d): str(v) for d, v in sorted(prev_map.items())[:8]}}
    return res


def main(tier, seed, scale=1.0):
    BIN['san'] = build.ensure('san')
    import random
    r = random.Random('%s/C16' % seed)
    hists = []
    light = [s for s in SYMS if s != 'mmb']
    for n in (1, 2, 3):
        for h in itertools.product(light, repeat=n):
            if any(s not in ('first', 'physical') for s in h):
                hists.append(h)
    # histories with an MMB (511 surfaces each: fewer, they are slower)
    mm = []
    for n in (1, 2, 3):
        for h in itertools.product(SYMS, repeat=n):
            if 'mmb' in h and h.count('mmb') == 1:
                mm.append(h)
    r.shuffle(mm)
    q = tier == 'quick'
    hists += mm[:(16 if q else len(mm))]
    if q:
        r.shuffle(hists)
        keep = [h for h in hists if len(h) <= 2] + [h for h in hists if len(h) == 3][:260]
        hists = keep + mm[:16]
    nrand = 30 if q else 6000
    for _ in range(nrand):
        n = r.choice([4, 5, 6, 8])
        h = tuple(r.choice(light if r.random() < 0.9 else SYMS) for _ in range(n))
        if h.count('mmb') <= 1 and any(s not in ('first', 'physical') for s in h):
            hists.append(h)
    hists = list(dict.fromkeys(hists))
    if scale < 1:
        hists = hists[::max(1, int(1 / scale))]
    specs = [(seed, h, i, tier) for i, h in enumerate(hists)]
    rule = ('one case = one option history over {--drive-first, --drive-physical, one-sided ssd, two-sided dsd, one-sided '
            'HFE, two-sided HxC MFM, MMB}: exhaustive up to length %s without MMB, sampled with one MMB, random of length '
            '4-6; after every prefix: attach events (hook A) distinct and complete, --show-config equal to them, earlier '
            'surfaces unmoved, physical policy never takes the opposite side of another image and puts surfaces at n, n+2, '
            '..., --drive-first takes the lowest free numbers in order; finally up to 8 drives are read by argument / '
            '--drive / :k. prefix and must deliver the unique title or file of the surface attached there; distinct = '
            '(history prefix, number of surfaces)' % ('2 and 150 of length 3' if q else '3'))
    return run_check(PROP, 'exploration', case, specs, tier, seed, rule,
                     extra_cov={'exhaustive': False},
                     assumptions=['which free number the physical policy picks among the admissible ones is not judged',
                                  'a surface is identified by the unique title it delivers (show-titles) and, where the free-text description can be read, by the file name and side/slot number in it; unformatted MMB slots only by the latter'])
