"""C10 -- gzip compression of an image file is transparent.

Metamorphic monitor: every command on X.gz must equal the run on X (all
containers, compression levels, optional header fields, multi-member files,
sizes placed on and around the 512 / 1024 / 32768 byte buffer boundaries,
catalogues whose sector count makes the file-name hints decide the geometry).
Fault enumeration: every truncation point and every single-bit flip of small
streams, with zlib itself (Python's zlib) as the reference for validity.
"""
import os
import struct
import zlib

from .. import build, discmodel as dm, flux, hostile
from ..dfsutil import case_rng, dfs, write_file
from ..execu import clean_failure_key
from ..runner import run_check, CaseResult, Scratch

PROP = 'C10'
BIN = {}


def gz_member(raw, level=6, extra_len=None, name=False, comment=False, hcrc=False, mtime=0):
    co = zlib.compressobj(level, zlib.DEFLATED, -15)
    body = co.compress(raw) + co.flush()
    flg = (4 if extra_len is not None else 0) | (8 if name else 0) | (16 if comment else 0) | (2 if hcrc else 0)
    hdr = bytearray(b'\x1f\x8b\x08' + bytes([flg]) + struct.pack('<I', mtime) + b'\x00\x03')
    if extra_len is not None:
        hdr += struct.pack('<H', extra_len) + bytes(extra_len)
    if name:
        hdr += b'image.ssd\0'
    if comment:
        hdr += b'a comment\0'
    if hcrc:
        hdr += struct.pack('<H', zlib.crc32(bytes(hdr)) & 0xFFFF)
    return bytes(hdr) + body + struct.pack('<II', zlib.crc32(raw) & 0xFFFFFFFF, len(raw) & 0xFFFFFFFF)


def pad_to(raw, level, target_mod, want, **kw):
    """a member whose total length is congruent to `want` modulo target_mod (via FEXTRA)"""
    base = gz_member(raw, level, extra_len=0, **kw)
    need = (want - len(base)) % target_mod
    return gz_member(raw, level, extra_len=need, **kw)


def reference(data):
    """('ok', decompressed) | ('bad',) | ('ambiguous',) with zlib as the judge"""
    if not data:
        return ('bad',)
    out = b''
    rest = data
    first = True
    while rest:
        if not first and rest[0] != 0x1F:
            return ('ambiguous',)     # trailing data that does not look like a member
        d = zlib.decompressobj(31)
        try:
            out += d.decompress(rest)
        except zlib.error:
            return ('bad',) if first else ('ambiguous',)
        if not d.eof:
            if first or len(rest) >= 18:
                return ('bad',)
            return ('ambiguous',)
        rest = d.unused_data
        first = False
    return ('ok', out)


def commands_for(rng, surfaces, drives, n=5):
    cmds = []
    for s, drive in zip(surfaces, drives):
        v = s.volumes[0]
        dv = '%d%s' % (drive, v.label or '')
        cmds += [['cat', dv], ['info', ':%s.#.*' % dv], ['free', dv], ['space', dv], ['sector-map', str(drive)],
                 ['show-titles'], ['dump-sector', str(drive), str(rng.randrange(s.tracks)), str(rng.randrange(s.spt))],
                 ['dump-sector', str(drive), str(s.tracks - 1), str(s.spt - 1)]]
        ents = v.cat.all_entries()
        for e in rng.sample(ents, min(2, len(ents))):
            cmds.append([rng.choice(['type', 'dump', 'list']), ':%s.%s.%s' % (dv, e.dir, e.name)])
    rng.shuffle(cmds)
    return cmds[:n] + [['cat']]


def compare(res, dfsbin, plain, gzpath, cmds, files, what, tmp):
    for cmd in cmds:
        a = dfs(dfsbin, plain, cmd, cwd=tmp)
        b = dfs(dfsbin, gzpath, cmd, cwd=tmp)
        res.execs += 2
        res.events += 1
        for r_ in (a, b):
            k = clean_failure_key(r_, (0, 1, 2))
            if k:
                res.violation('%s:%s' % (what, k), 'unclean termination', r_.brief(), files, r_.argv)
        if (a.rc, a.out) != (b.rc, b.out):
            res.violation('gz-not-transparent:%s:%s' % (what, cmd[0]),
                          '%s differs between the image and its gzip-compressed copy' % ' '.join(cmd),
                          {'plain': a.brief(), 'gz': b.brief()}, files, b.argv)
        res.sigs.append('%s|%s|%s' % (what, os.path.basename(gzpath), ' '.join(cmd)[:30]))


def transparency_case(seed, idx, tier):
    rng = case_rng(seed, PROP, ('t', idx))
    res = CaseResult()
    dfsbin = BIN['san']['dfs']
    with Scratch('c10') as tmp:
        kind = ['single', 'inter', 'hinted', 'mmb', 'flux', 'tiny', 'aligned', 'multi', 'hostile', 'blank-side', 'ragged'][idx % 11]
        surfaces, drives = None, None
        if kind in ('single', 'inter', 'aligned', 'multi', 'tiny'):
            from ..dfsutil import make_image
            if kind == 'tiny':
                total = rng.choice([3, 4, 5, 8])
                s = dm.gen_surface(rng, variant='acorn', spt=10, total=total, tracks=35, nfiles=rng.choice([0, 1]), maxlen_sectors=1)
                raw = s.image()[:rng.choice([2, 3, total, total + 1]) * 256 if total > 2 else 768]
                if len(raw) < total * 256:
                    raw = s.image()[:total * 256]
                plain = os.path.join(tmp, 'x.ssd')
                write_file(plain, raw)
                surfaces, drives = [s], [0]
            else:
                img = make_image(rng, tmp, kind='inter' if kind == 'inter' else 'single', name='x', maxlen_sectors=20)
                plain = img.path
                raw = open(plain, 'rb').read()
                surfaces, drives = img.surfaces, img.drives
        elif kind == 'hinted':
            # sector counts for which only the file-name hints decide the density: the .gz must get the same hints
            ext = rng.choice(['ssd', 'sdd', 'dsd', 'ddd'])
            spt = 10 if ext in ('ssd', 'dsd') else 18
            total = rng.choice([700, 721, 801, 1000, 1023, 401, 631]) if spt == 18 else rng.choice([700, 640, 360, 401, 720, 799])
            tracks = dm.std_geometry(total, spt)
            s0 = dm.gen_surface(rng, variant='acorn', spt=spt, total=total, tracks=tracks, maxlen_sectors=10)
            if ext in ('dsd', 'ddd'):
                s1 = dm.gen_surface(rng, variant='acorn', spt=spt, total=total, tracks=tracks, sid=1, maxlen_sectors=10)
                raw = dm.dsd_image(s0, s1)
                surfaces, drives = [s0, s1], [0, 2]
            else:
                raw = s0.image()
                surfaces, drives = [s0], [0]
            plain = os.path.join(tmp, 'x.' + ext)
            write_file(plain, raw)
        elif kind == 'mmb':
            slots = {}
            ss = {}
            for k in sorted(set([0, rng.randrange(511), 510 if rng.random() < 0.3 else 1])):
                s = dm.gen_surface(rng, variant='acorn', spt=10, total=800, tracks=80, maxlen_sectors=4, nfiles=3)
                slots[k] = (0x0F, s.image())
                ss[k] = s
            plain = os.path.join(tmp, 'x.mmb')
            dm.mmb_file(plain, slots)
            raw = open(plain, 'rb').read()
            surfaces, drives = None, None
        elif kind == 'ragged':
            # the image ends in the middle of a sector that a file (or a dump-sector request) needs
            spt = rng.choice([10, 18])
            s = dm.gen_surface(rng, variant='acorn', spt=spt, nfiles=rng.randint(2, 8), style='packed', maxlen_sectors=6)
            ents = [e for e in s.volumes[0].cat.entries if e.length > 256]
            img_ = s.image()
            if ents:
                e = rng.choice(ents)
                cut_sector = e.start + rng.randrange(0, e.nsectors)
            else:
                cut_sector = rng.randrange(3, 30)
            cut = cut_sector * 256 + rng.choice([1, 100, 255, 128])
            raw = img_[:cut]
            plain = os.path.join(tmp, 'x.' + ('ssd' if spt == 10 else 'sdd'))
            write_file(plain, raw)
            ragged_cmds = [['dump-sector', '0', str(cut_sector // spt), str(cut_sector % spt)],
                           ['dump-sector', '0', str((cut_sector - 1) // spt), str((cut_sector - 1) % spt)],
                           ['dump-sector', '0', str((cut_sector + 1) // spt), str((cut_sector + 1) % spt)]]
            for e2 in s.volumes[0].cat.entries[:6]:
                ragged_cmds.append([rng.choice(['type', 'dump', 'list']), ':0.%s.%s' % (e2.dir, e2.name)])
        elif kind == 'hostile':
            # transparency also holds for images the tool rejects or half accepts
            b = hostile.base_image(rng, None, small=True)
            raw, _how = hostile.mutate(rng, b)
            if not raw:
                raw = b['data']
            plain = os.path.join(tmp, 'x.' + b['ext'])
            write_file(plain, raw)
        elif kind == 'blank-side':
            # two-sided containers of which only one side carries a file system
            ext = rng.choice(['dsd', 'ddd'])
            spt = 10 if ext == 'dsd' else 18
            s0 = dm.gen_surface(rng, variant=rng.choice(['acorn', 'watford']), spt=spt, maxlen_sectors=10)
            blank = rng.choice([b'\0', b'\xe5', None])
            side1 = (blank * (s0.nsectors * 256)) if blank else rng.randbytes(s0.nsectors * 256)
            a = s0.image()
            tb = spt * 256
            good_first = rng.random() < 0.7
            pair = (a, side1) if good_first else (side1, a)
            raw = b''.join(pair[0][t * tb:(t + 1) * tb] + pair[1][t * tb:(t + 1) * tb] for t in range(s0.tracks))
            plain = os.path.join(tmp, 'x.' + ext)
            write_file(plain, raw)
        else:
            b = hostile.base_image(rng, rng.choice(['hfe', 'mfm']), small=True)
            raw = b['data']
            plain = os.path.join(tmp, 'x.' + b['ext'])
            write_file(plain, raw)
        # ---- the path: '.gz' and image extensions may occur earlier in it (directory names, compound file names);
        # only the end of the name tells the image type, for the plain file and for its compressed copy alike
        if idx % 2 == 0:
            sub = os.path.join(tmp, rng.choice(['backup.gz.d', 'discs.gz', 'a.ssd', 'd.dsd.gz', 'flux.hfe', 'm.mmb.gz.old', 'plain']))
            os.mkdir(sub)
            base = os.path.basename(plain)
            stem, ext_ = os.path.splitext(base)
            base = rng.choice([base, 'game.gz' + ext_, 'a.ssd' + ext_, 'b.ddd.gz' + ext_, stem + '.gz.gz' + ext_])
            moved = os.path.join(sub, base)
            os.rename(plain, moved)
            plain = moved
            res.seen('path_shapes', os.path.basename(sub) + '/' + base.replace(stem, 'x'))
        # ---- the compressed copy
        level = rng.randrange(10)
        if kind == 'aligned':
            mod = rng.choice([512, 1024, 32768])
            gzdata = pad_to(raw, level, mod, rng.choice([0, 1, mod - 1]), name=rng.random() < 0.5)
            how = 'compressed size = %d mod %d' % (len(gzdata) % mod, mod)
        elif kind == 'multi':
            cuts = sorted(rng.sample(range(1, len(raw)), rng.choice([1, 2, 3])))
            if rng.random() < 0.4:
                cuts[0] = rng.choice([512, 1024, 32768, 256])
                cuts = sorted(set(c for c in cuts if 0 < c < len(raw)))
            parts = [raw[a:b] for a, b in zip([0] + cuts, cuts + [len(raw)])]
            members = []
            for i, part in enumerate(parts):
                lvl = rng.randrange(10)
                if rng.random() < 0.6:
                    # member boundary on, or within a few bytes of, a multiple of the tool's 512-byte input
                    # buffer (so that 0, 1, 2, 3 bytes of the next member's header are left in the buffer)
                    sofar = sum(len(m) for m in members)
                    m0 = gz_member(part, lvl, extra_len=0)
                    want = rng.choice([0, 0, 0, 511, 511, 510, 509, 1, 2, 3])
                    m = gz_member(part, lvl, extra_len=(want - (sofar + len(m0))) % 512)
                    res.seen('member_boundary_mod_512', want)
                else:
                    m = gz_member(part, lvl)
                members.append(m)
            gzdata = b''.join(members)
            how = '%d members, boundaries at %r' % (len(members), [sum(len(m) for m in members[:i + 1]) % 512 for i in range(len(members))])
        else:
            gzdata = gz_member(raw, level, extra_len=rng.choice([None, None, 0, 7, 700]), name=rng.random() < 0.3,
                               comment=rng.random() < 0.2, hcrc=rng.random() < 0.2, mtime=rng.getrandbits(32))
            how = 'level %d' % level
        ref = reference(gzdata)
        if ref != ('ok', raw):
            res.inconclusive.append('generated gzip stream is not valid per zlib: %s' % how)
            return res
        gzpath = plain + '.gz'
        write_file(gzpath, gzdata)
        files = {os.path.basename(gzpath): gzdata} if len(gzdata) < 2000000 else {'how.txt': how.encode()}
        res.seen('transparency_kinds', kind)
        res.seen('gzip_levels', level)
        if kind == 'ragged':
            cmds = ragged_cmds + [['cat'], ['free']]
        elif surfaces:
            cmds = commands_for(rng, surfaces, drives, 6)
        elif kind == 'mmb':
            cmds = [['cat', '0'], ['show-titles', '0'], ['dump-sector', '0', '79', '9']]
            k = max(ss)
            cmds += [['cat', str(2 * k)], ['info', ':%d.#.*' % (2 * k)], ['dump-sector', str(2 * k), '79', '9']]
        else:
            cmds = [['cat'], ['info', '#.*'], ['free'], ['sector-map'], ['dump-sector', '0', '0', '1'], ['show-titles'],
                    ['type', '--binary', 'F0'], ['cat', '2'], ['dump-sector', '2', '0', '0']]
        compare(res, dfsbin, plain, gzpath, cmds, files, kind, tmp)
        # extract commands: directory contents must agree as well
        if surfaces:
            outs = []
            for tag, p in (('a', plain), ('b', gzpath)):
                d = os.path.join(tmp, 'out' + tag)
                os.mkdir(d)
                r_ = dfs(dfsbin, p, ['extract-files', d], cwd=tmp)
                res.execs += 1
                outs.append((r_.rc, sorted((f, open(os.path.join(d, f), 'rb').read()) for f in os.listdir(d)), r_))
            if (outs[0][0], outs[0][1]) != (outs[1][0], outs[1][1]):
                res.violation('gz-not-transparent:%s:extract-files' % kind, 'extract-files differs for the compressed copy',
                              {'plain': outs[0][2].brief(), 'gz': outs[1][2].brief()}, files, outs[1][2].argv)
        res.sample = {'kind': kind, 'image_bytes': len(raw), 'gz_bytes': len(gzdata), 'how': how}
    return res


def damage_case(seed, idx, tier):
    """every truncation point and every single-bit flip of a small stream"""
    rng = case_rng(seed, PROP, ('d', idx))
    res = CaseResult()
    dfsbin = BIN['san']['dfs']
    with Scratch('c10d') as tmp:
        total = rng.choice([5, 8, 12])
        ents = [dm.Entry('$', 'F', False, 0x1900, 0x8023, 300, 2, rng.randbytes(40) * 8)]
        cat = dm.Cat(b'GZ', 0, 1, 0, total, ents)
        s = dm.Surface('acorn', 35, 10, [dm.Volume(None, 0, 350, 0, cat)], 1, 0)
        raw = bytearray(s.image()[:total * 256])
        for k in range(4 * 256, len(raw)):
            raw[k] = 0xE5          # compressible filler keeps the stream small
        raw = bytes(raw)
        multi = idx % 2 == 1
        if multi:
            gzdata = gz_member(raw[:700], 9) + gz_member(raw[700:], 9, name=True)
        else:
            gzdata = gz_member(raw, 9, name=(idx % 4 == 2))
        plain = os.path.join(tmp, 'p.ssd')
        write_file(plain, raw)
        cmd = [['cat'], ['type', '--binary', 'F'], ['dump-sector', '0', '0', '1'], ['info', '#.*']][idx % 4]
        refrun = dfs(dfsbin, plain, cmd, cwd=tmp)
        res.execs += 1
        files0 = {'p.ssd': raw, 'good.ssd.gz': gzdata}
        variants = [('truncate', n, gzdata[:n]) for n in range(0, len(gzdata))]
        step = 1 if tier == 'thorough' else 3
        for bit in range(idx % step, len(gzdata) * 8, step):
            g = bytearray(gzdata)
            g[bit // 8] ^= 1 << (bit % 8)
            variants.append(('bitflip', bit, bytes(g)))
        variants.append(('not-gzip', 0, raw))
        variants.append(('not-gzip', 1, b'\x1f\x8b' + raw))
        # other compressed formats are not gzip either: a zlib (RFC 1950) stream, a raw deflate stream
        variants.append(('not-gzip', 2, zlib.compress(raw, 9)))
        co = zlib.compressobj(9, zlib.DEFLATED, -15)
        variants.append(('not-gzip', 3, co.compress(raw) + co.flush()))
        gp = os.path.join(tmp, 'v.ssd.gz')
        for how, n, data in variants:
            ref = reference(data)
            if ref[0] == 'ambiguous':
                res.add('ambiguous_skipped', 1)
                continue
            write_file(gp, data)
            r_ = dfs(dfsbin, gp, cmd, cwd=tmp)
            res.execs += 1
            res.events += 1
            files = dict(files0)
            files['variant.ssd.gz'] = data
            k = clean_failure_key(r_, (0, 1, 2))
            if k:
                res.violation('damaged-gz:%s' % k, 'unclean termination on a damaged gzip stream', r_.brief(), files, r_.argv)
                continue
            res.add('variants_%s_%s' % (how, ref[0]), 1)
            if ref[0] == 'ok':
                if ref[1] == raw:
                    exp = refrun
                else:
                    p2 = os.path.join(tmp, 'alt.ssd')
                    write_file(p2, ref[1])
                    exp = dfs(dfsbin, p2, cmd, cwd=tmp)
                    res.execs += 1
                if (r_.rc, r_.out) != (exp.rc, exp.out):
                    res.violation('valid-stream-misread:%s' % how,
                                  'a stream zlib accepts (%s %d) is not read as its decompressed content' % (how, n),
                                  {'gz': r_.brief(), 'expected': exp.brief()}, files, r_.argv)
            else:
                if r_.rc == 0 or not r_.err.strip() or r_.out.strip():
                    res.violation('damaged-gz-accepted:%s' % how,
                                  'a %s stream (%s %d) was accepted, produced output, or failed silently (exit %d)'
                                  % ('truncated' if how == 'truncate' else 'corrupt / non-gzip', how, n, r_.rc),
                                  {'gz': r_.brief()}, files, r_.argv)
            res.sigs.append('%s|%d|%d|%s' % (how, n, idx, cmd[0]))
        res.sample = {'kind': 'damage', 'stream_bytes': len(gzdata), 'members': 2 if multi else 1, 'command': cmd,
                      'variants': len(variants)}
    return res


def dispatch(spec):
    seed, kind, idx, tier = spec
    return transparency_case(seed, idx, tier) if kind == 't' else damage_case(seed, idx, tier)


def main(tier, seed, scale=1.0):
    BIN['san'] = build.ensure('san')
    q = tier == 'quick'
    specs = [(seed, 't', i, tier) for i in range(int((160 if q else 4000) * scale))] + \
            [(seed, 'd', i, tier) for i in range(int((8 if q else 120) * scale))]
    rule = ('t cases: one image (ssd/sdd/dsd/ddd incl. sector counts where only the name hints decide the density, tiny '
            'images, MMB, HFE, HxC MFM) and its gzip copy (levels 0-9, optional FEXTRA/FNAME/FCOMMENT/FHCRC, compressed '
            'size placed on / next to multiples of 512, 1024, 32768, 2-4 members with boundaries on and off multiples of '
            '512): every command and extract-files must agree; d cases: every truncation point and every (3rd in quick) '
            'single-bit flip of a small one- or two-member stream plus non-gzip data, zlib deciding validity: valid => '
            'equal to the decompressed image, invalid => rejected with a diagnostic and no output; distinct = (kind, '
            'file, command / variant)')
    return run_check(PROP, 'fault_enumeration', dispatch, specs, tier, seed, rule,
                     assumptions=['zlib (via Python) is the reference for stream validity: the tool links the same library',
                                  'trailing data that does not begin a gzip member is not judged (gzip itself ignores it)'])
