"""C06 -- track decoding never returns damaged or misaddressed sector data.

Decoder level: a C++ harness linked against the repository's own decoders
(ASan+UBSan) is fed (a) valid tracks with known contents subjected to bit
flips, slips, zeroed runs and truncation -- judged by a truth oracle with a
"CRC collision at home" excuse -- and (b) arbitrary streams -- judged by an
independent bit-level scanner.  Image level: damaged HFE / HxC MFM files
through the real dfs; every delivered sector is attributed by fingerprint.
"""
import os
import struct
import subprocess

from .. import build, discmodel as dm, flux
from ..dfsutil import case_rng, dfs, screen, write_file
from ..execu import SAN_ENV, classify_report
from ..runner import run_check, CaseResult, Scratch
from .c04 import parse_hexdump

PROP = 'C06'
BIN = {}
REGIONS = ['sync', 'idam', 'idfield', 'gap2', 'dam', 'data', 'crc']


def adj(ops, p):
    for kind, a in ops:
        if kind == 'ins' and a <= p:
            p += 1
        elif kind == 'del' and a < p:
            p -= 1
    return p


def region_span(tr, r, region, enc):
    p = tr.pos[r]
    if region == 'sync':
        return p['idam'] - (6 * 16 if enc == 'fm' else 12 * 16), p['idam']
    if region == 'idam':
        return p['idam'], p['idfield']
    if region == 'idfield':
        return p['idfield'], p['idend']
    if region == 'gap2':
        return p['idend'], p['dam']
    if region == 'dam':
        return p['dam'], p['data']
    if region == 'data':
        return p['data'], p['crc']
    return p['crc'], p['end']


def _crc_error_table():
    """error pattern in the two recorded CRC bytes -> residue of a CRC-16/CCITT check over field + CRC (linear);
    inverted for the 16 single-bit residues"""
    def residue(e):
        c = e
        for _ in range(16):
            c = ((c << 1) ^ 0x1021) & 0xFFFF if c & 0x8000 else (c << 1)
        return c
    inv = {residue(e): e for e in range(1, 65536)}
    return [inv[1 << k] for k in range(16)]


CRC_ERROR_FOR_RESIDUE_BIT = _crc_error_table()


def damage_track(rng, tr, enc, order, style=None):
    cells = bytearray(tr.c)
    ops = []
    log = []
    recs = list(tr.pos)
    style = style or rng.choice(['random', 'random', 'lost-record', 'double-fault', 'slips', 'zeros', 'truncate', 'none',
                                 'recode', 'recode', 'recode', 'deleted-mark', 'deleted-mark'])

    def span(r, region):
        a, b = region_span(tr, r, region, enc)
        return max(0, adj(ops, a)), max(0, adj(ops, b))

    def do(kind, r, region):
        a, b = span(r, region)
        if b <= a:
            return
        if kind == 'flip':
            for _ in range(rng.choice([1, 1, 2, 3])):
                flux.flip(cells, rng.randrange(a, b))
        elif kind == 'zero':
            if rng.random() < 0.5:
                flux.zero_run(cells, a, b)
            else:
                s = rng.randrange(a, b)
                flux.zero_run(cells, s, s + rng.choice([1, 2, 8, 16, 64, 400, 3000]))
        elif kind == 'ins':
            at = rng.randrange(a, b)
            flux.insert_cell(cells, at, rng.randrange(2))
            ops.append(('ins', at))
        elif kind == 'del':
            at = rng.randrange(a, b)
            flux.delete_cell(cells, at)
            ops.append(('del', at))
        log.append((kind, r, region))

    def recode(r, region, fixed=None):
        # wrong bytes, legal clock pattern, stale CRC: only the CRC check can reject this field
        a0, b0 = region_span(tr, r, region, enc)
        n = (b0 - a0) // 16
        cur = flux._bits_to_bytes(cells, a0 + 1, n)
        new = bytearray(cur)
        if fixed is not None:
            for (at, x) in fixed:
                new[at] ^= x
        for _ in range(rng.choice([1, 1, 2, 3, 8]) if fixed is None else 0):
            new[rng.randrange(n)] ^= rng.choice([1, 2, 4, 8, 16, 32, 64, 128, 0xFF, rng.randrange(1, 256)])
        if bytes(new) == cur:
            new[0] ^= 1
        if enc == 'fm':
            enc_cells = b''.join(flux.FM_TAB[x] for x in new)
        else:
            prev = cells[a0 - 1] if a0 > 0 else 0
            out = bytearray()
            for x in new:
                out += flux.MFM_TAB[prev][x]
                prev = out[-1]
            enc_cells = bytes(out)
            # the clock of the first cell after the field depends on the last data bit
            if b0 + 1 < len(cells):
                cells[b0] = 0 if (prev or cells[b0 + 1]) else 1
        cells[a0:b0] = enc_cells
        log.append(('recode', r, region))

    def set_mark(r, mark):
        # rewrite the data address mark (legal mark clocks) without touching the CRC that covers it
        a0, b0 = region_span(tr, r, 'dam', enc)
        if enc == 'fm':
            cells[a0:a0 + 16] = flux.FM_DDAM if mark == 0xF8 else flux.FM_DAM
        else:
            # three A1 sync words, then the mark byte
            m0 = b0 - 16
            prev = cells[m0 - 1]
            enc_cells = flux.MFM_TAB[prev][mark]
            cells[m0:b0] = enc_cells
            if b0 + 1 < len(cells):
                cells[b0] = 0 if (enc_cells[-1] or cells[b0 + 1]) else 1
        log.append(('mark-%02X' % mark, r, 'dam'))

    if style == 'none':
        pass
    elif style == 'deleted-mark':
        # some records carry a deleted-data mark; their CRC (which covers the mark) is then wrong, and some of
        # them have damaged data as well: none of these may be returned as a good sector
        for r in rng.sample(recs, rng.randint(1, max(1, len(recs) // 2))):
            set_mark(r, 0xF8)
            if rng.random() < 0.6:
                recode(r, 'data')
    elif style in ('recode', 'recode-all'):
        # every sector gets a recoded data (or ID) field: many chances for a weak CRC check to accept one
        for r in recs:
            if style == 'recode-all':
                recode(r, 'data')
                if rng.random() < 0.5:
                    recode(r, 'idfield')
            else:
                recode(r, 'data' if rng.random() < 0.8 else 'idfield')
    elif style == 'crc-bits':
        # the recorded CRC of the data field, or of the ID field, is wrong by exactly the pattern that leaves one
        # single bit k in the checker's residue (legal clocks, field bytes intact): each of the 16 residue bits in
        # turn, so a CRC comparison that ignores any bit of the residue accepts one of these
        rot = rng.randrange(16)
        for j, r in enumerate(recs):
            k = (j + rot) % 16
            e = CRC_ERROR_FOR_RESIDUE_BIT[k]
            if rng.random() < 0.5:
                recode(r, 'crc', [(0, e >> 8), (1, e & 0xFF)])
            else:
                recode(r, 'idfield', [(4, e >> 8), (5, e & 0xFF)])
            log.append(('crc-bit', r, k))
    elif style == 'lost-record':
        # the data mark of one or more sectors disappears
        for r in rng.sample(recs, rng.randint(1, 3)):
            do('zero', r, 'dam')
    elif style == 'double-fault':
        # a record and the header of the physically next sector are both lost
        i = rng.randrange(len(order) - 1)
        do(rng.choice(['zero', 'flip']), order[i], 'dam')
        do(rng.choice(['zero', 'flip']), order[i + 1], rng.choice(['idam', 'idfield']))
        if rng.random() < 0.3:
            do('flip', order[i + 1], 'sync')
    elif style == 'slips':
        for _ in range(rng.randint(1, 4)):
            do(rng.choice(['ins', 'del']), rng.choice(recs), rng.choice(REGIONS))
    elif style == 'zeros':
        for _ in range(rng.randint(1, 3)):
            do('zero', rng.choice(recs), rng.choice(REGIONS))
    elif style == 'truncate':
        cut = rng.randrange(0, len(cells))
        del cells[cut:]
        log.append(('truncate', cut, None))
        if rng.random() < 0.5:
            do('flip', rng.choice(recs), rng.choice(REGIONS))
    else:
        for _ in range(rng.randint(1, 6)):
            do(rng.choice(['flip', 'flip', 'zero', 'ins', 'del']), rng.choice(recs), rng.choice(REGIONS))
    return cells, ops, log


def home_id(cells, tr, r, ops, enc):
    p = adj(ops, tr.pos[r]['idfield'])
    try:
        if enc == 'fm':
            f = flux._bits_to_bytes(cells, p + 1, 6)
            if flux.crc16_fast(b'\xFE' + f) == 0:
                return tuple(f[:4])
        else:
            f = flux._bits_to_bytes(cells, p + 1, 7)
            if f[0] == 0xFE and flux.crc16_fast(b'\xA1\xA1\xA1' + f) == 0:
                return tuple(f[1:5])
    except IndexError:
        return None
    return None


def home_data(cells, tr, r, ops, enc, size=256):
    p = adj(ops, tr.pos[r]['data'])
    try:
        f = flux._bits_to_bytes(cells, p + 1, size + 2)
        if enc == 'fm':
            if flux.crc16_fast(b'\xFB' + f) == 0:
                return f[:size]
        else:
            mark = flux._bits_to_bytes(cells, p - 16 + 1, 1)
            if flux.crc16_fast(b'\xA1\xA1\xA1' + mark + f) == 0 and mark[0] == 0xFB:
                return f[:size]
    except IndexError:
        return None
    return None


def run_harness(cases):
    """cases: list of (kind 'F'/'M', packed bytes) -> (list of yields per case, stderr, rc)"""
    inp = bytearray()
    for k, data in cases:
        inp += k.encode() + struct.pack('<I', len(data)) + data
    env = dict(os.environ)
    env.update(SAN_ENV)
    p = subprocess.run([BIN['dech']], input=bytes(inp), stdout=subprocess.PIPE, stderr=subprocess.PIPE, env=env,
                       timeout=300)
    out = []
    cur = None
    for line in p.stdout.split(b'\n'):
        if line.startswith(b'T '):
            cur = []
            out.append(cur)
        elif line.startswith(b'S ') and cur is not None:
            f = line.split()
            data = bytes.fromhex(f[5].decode()) if len(f) == 7 else b''
            cur.append(((int(f[1]), int(f[2]), int(f[3])), int(f[4]), data))
    return out, p.stderr, p.returncode


def decoder_case(spec, force_style=None):
    seed, idx, tier = spec
    rng = case_rng(seed, PROP, ('dec', idx, force_style))
    res = CaseResult()
    batch = []
    meta = []
    for k in range(25):
        enc = rng.choice(['fm', 'mfm'])
        spt = 10 if enc == 'fm' else rng.choice([16, 18])
        cyl = rng.randrange(80)
        head = rng.randrange(2)
        secs = {r: rng.randbytes(256) for r in range(spt)}
        params = flux.FluxParams(rng, enc, spt)
        order = params.order(rng, spt, cyl)
        fn = flux.fm_track if enc == 'fm' else flux.mfm_track
        tr = fn(cyl, head, secs, order=order, gap1=params.gap1, gap3=params.gap3, sync=params.sync, gap2=params.gap2,
                index_mark=params.index_mark, gap4_min=params.gap4)
        cells, ops, log = damage_track(rng, tr, enc, order, force_style)
        batch.append(('F' if enc == 'fm' else 'M', flux.pack_lsb_first(cells)))
        meta.append((enc, spt, cyl, head, secs, tr, cells, ops, log, order))
    yields, err, rc = run_harness(batch)
    res.execs += len(batch)
    rep = classify_report(err)
    if rc != 0 or rep:
        bad = len(yields)
        k, data = batch[min(bad, len(batch) - 1)]
        res.violation('decoder-crash:%s' % (rep or 'exit-%d' % rc), 'decoder harness died on a damaged track',
                      {'stderr': err[-1500:], 'damage': repr(meta[min(bad, len(meta) - 1)][8])},
                      {'track.%s.bin' % k: data}, [BIN['dech']])
        return res
    for (enc, spt, cyl, head, secs, tr, cells, ops, log, order), ys, (k, packed) in zip(meta, yields, batch):
        res.seen('damage_styles', ','.join(sorted(set(str(l[0]) for l in log))) or 'none')
        res.add('tracks', 1)
        res.add('sectors_yielded', len(ys))
        homes = {}

        def home(sl):
            if sl not in homes:
                homes[sl] = (home_id(cells, tr, sl, ops, enc), home_data(cells, tr, sl, ops, enc))
            return homes[sl]
        for (A, size, D) in ys:
            res.events += 1
            r = A[2]
            # (1) both fields CRC-valid at the home position of this record, and they are what was yielded
            if r in secs and size == 256:
                hid, hd = home(r)
                if hid is not None and hid[:3] == A and hd is not None and hd == D:
                    if (A[0], A[1]) == (cyl, head) and D == secs[r]:
                        res.add('yielded_correct', 1)
                    else:
                        res.add('benign_collisions_at_home', 1)
                    continue
            # (2) some other slot whose damaged ID now reads as A, with its own home data
            ok = False
            for sl in secs:
                hid, hd = home(sl)
                if hid is not None and hid[:3] == A and hd is not None and hd == D:
                    ok = True
                    break
            if ok:
                res.add('benign_collisions_at_home', 1)
                continue
            # (3) second opinion from the independent scanner
            ids, datas = (flux.scan_fm if enc == 'fm' else flux.scan_mfm)(cells)
            home_pos = [adj(ops, tr.pos[sl]['idam']) for sl in secs]
            id_offs = [o for (o, a) in ids if tuple(a[:3]) == A]
            d_ok = any(d == D for (o, d, deleted) in datas)
            stray = [o for o in id_offs if all(abs(o - hp) > 64 for hp in home_pos)]
            if stray and d_ok:
                res.add('benign_collision_stray_id', 1)
                continue
            owner = [sl for sl in secs if secs[sl] == D]
            if not id_offs or not d_ok:
                key = 'yield-with-bad-crc:%s' % enc
                what = 'a sector whose %s does not pass the CRC check anywhere in the stream' % ('ID field' if not id_offs else 'data field')
            elif owner and owner[0] != r:
                key = 'decoder-misaddressed:%s' % enc
                what = 'the data recorded for record %d' % owner[0]
            else:
                key = 'decoder-damaged-data:%s' % enc
                what = 'data that does not belong to that address'
            res.violation(key, '%s decoder yielded address %r with %s' % (enc.upper(), A, what),
                          {'damage': repr(log), 'order': order, 'cyl': cyl, 'head': head},
                          {'track.%s.bin' % k: packed}, [BIN['dech']])
        res.sigs.append('%s|%d|%s|%d' % (enc, spt, repr(log)[:60], idx * 25 + len(res.sigs)))
    res.sample = {'enc': meta[0][0], 'spt': meta[0][1], 'damage': repr(meta[0][8]), 'yielded': len(yields[0]) if yields else None}
    return res


def arbitrary_stream(rng):
    k = rng.random()
    if k < 0.1:
        n = rng.choice([0, 1, 2, 7, 8, 15, 16, 17, 100])
        return bytearray(rng.getrandbits(1) for _ in range(n))
    if k < 0.2:
        return bytearray([rng.choice([0, 1])]) * rng.choice([1000, 50000])
    if k < 0.35:
        return bytearray(rng.getrandbits(1) for _ in range(rng.choice([1000, 20000])))
    # splices of valid track fragments at arbitrary bit offsets, repeated / overlapping marks,
    # marks straddling the end
    enc = rng.choice(['fm', 'mfm'])
    out = bytearray()
    for _ in range(rng.randint(1, 5)):
        spt = rng.choice([1, 2, 3, 5])
        secs = {r: rng.randbytes(256) for r in range(spt)}
        fn = flux.fm_track if enc == 'fm' else flux.mfm_track
        tr = fn(rng.randrange(256), rng.randrange(4), secs, gap1=rng.randrange(2, 20), gap3=rng.randrange(0, 20),
                sync=rng.randrange(2, 14), gap2=rng.choice([0, 2, 11, 22, 40, 60]),
                size_code=rng.choice([1, 1, 1, 0, 2, 3, 7]))
        frag = tr.c
        a = rng.randrange(0, len(frag))
        b = rng.randrange(a, len(frag) + 1)
        if rng.random() < 0.5:
            a = 0
        out += frag[a:b]
        if rng.random() < 0.3:
            out += bytearray(rng.getrandbits(1) for _ in range(rng.randrange(1, 40)))
    if rng.random() < 0.3 and len(out) > 200:
        del out[rng.randrange(len(out) - 200, len(out)):]
    return out, enc


def arbitrary_case(spec):
    seed, idx, tier = spec
    rng = case_rng(seed, PROP, ('arb', idx))
    res = CaseResult()
    batch = []
    streams = []
    for k in range(30):
        s = arbitrary_stream(rng)
        if isinstance(s, tuple):
            cells, enc = s
            kinds = [enc]
        else:
            cells = s
            kinds = ['fm', 'mfm']
        for enc in kinds:
            batch.append(('F' if enc == 'fm' else 'M', flux.pack_lsb_first(cells)))
            # the packed form pads to a byte boundary with zero cells: scan what the decoder sees
            streams.append((enc, flux.unpack_lsb_first(batch[-1][1])))
    yields, err, rc = run_harness(batch)
    res.execs += len(batch)
    rep = classify_report(err)
    if rc != 0 or rep:
        bad = min(len(yields), len(batch) - 1)
        res.violation('decoder-crash:%s' % (rep or 'exit-%d' % rc), 'decoder harness died on an arbitrary stream',
                      {'stderr': err[-1500:]}, {'track.%s.bin' % batch[bad][0]: batch[bad][1]}, [BIN['dech']])
        return res
    for (enc, cells), ys, (k, packed) in zip(streams, yields, batch):
        res.add('streams', 1)
        if not ys:
            continue
        ids, datas = (flux.scan_fm if enc == 'fm' else flux.scan_mfm)(cells)
        res.add('scanner_valid_ids', len(ids))
        res.add('scanner_valid_data_fields', len(datas))
        for (A, size, D) in ys:
            res.events += 1
            res.add('sectors_yielded', 1)
            id_offs = [o for (o, a) in ids if tuple(a[:3]) == A]
            d_offs = [o for (o, d, deleted) in datas if d == D]
            if not id_offs or not d_offs or min(id_offs) > max(d_offs):
                res.violation('yield-without-valid-crc:%s' % enc,
                              '%s decoder yielded %r (%d bytes) but the stream holds no CRC-valid %s for it'
                              % (enc.upper(), A, size, 'ID field' if not id_offs else 'data field after that ID'),
                              {'ids_found': [a for _, a in ids][:10], 'data_fields_found': len(datas)},
                              {'track.%s.bin' % k: packed}, [BIN['dech']])
        res.sigs.append('arb|%s|%d|%d' % (enc, len(cells), idx * 100 + len(res.sigs)))
    res.sample = {'kind': 'arbitrary', 'streams': len(streams)}
    return res


def image_case(spec):
    seed, idx, tier = spec
    rng = case_rng(seed, PROP, ('img', idx))
    res = CaseResult()
    dfsbin = BIN['san']['dfs']
    with Scratch('c06') as tmp:
        # stratified: every (encoding, container) x damage style is met
        enc, kind = [('fm', 'hfe1'), ('mfm', 'mfm'), ('mfm', 'hfe1'), ('fm', 'hfe3'), ('mfm', 'hfe3'), ('mfm', 'mfm')][idx % 6]
        spt = 10 if enc == 'fm' else 18
        tracks = rng.choice([3, 5, 8, 40])
        total = min(tracks * spt, 1023)
        nonce = rng.getrandbits(16)
        # a nearly empty disc: almost every sector is a fingerprint
        ents = [dm.Entry('$', 'F', False, 0, 0, 300, 2, rng.randbytes(300))]
        cat = dm.Cat(b'DAMAGE', 0, 1, 0, total, ents)
        s = dm.Surface('acorn', tracks, spt, [dm.Volume(None, 0, tracks * spt, 0, cat)], nonce, 0)
        img = s.image()
        params = flux.FluxParams(rng, enc, spt)
        styles = ['same-sector-every-track', 'highest-record-every-track', 'random', 'lowest-record-every-track', 'one-track',
                  'double-fault-every-track', 'relabel-cylinder']
        style = styles[(idx // 6) % len(styles)]
        damaged = set()
        packed = {}
        relabel_track = rng.randrange(0, max(1, tracks - 1))
        relabel_from = rng.randrange(1, spt)
        for t in range(tracks):
            secs = {r: img[(t * spt + r) * 256:(t * spt + r + 1) * 256] for r in range(spt)}
            order = params.order(rng, spt, t)
            fn = flux.fm_track if enc == 'fm' else flux.mfm_track
            ido = None
            if style == 'relabel-cylinder' and tracks >= 3 and t == relabel_track:
                # records k.. of this track carry the next cylinder number in their (CRC-valid) ID fields, and the
                # next track lacks exactly those records: every track still shows consecutive record numbers
                ido = {r_: (t + 1, 0, r_, 1) for r_ in range(relabel_from, spt)}
                for r_ in range(relabel_from, spt):
                    damaged.add((t, r_))
                    damaged.add((t + 1, r_))
            if style == 'relabel-cylinder' and tracks >= 3 and t == relabel_track + 1:
                secs = {r_: v for r_, v in secs.items() if r_ < relabel_from}
                order = [r_ for r_ in order if r_ < relabel_from]
            tr = fn(t, 0, secs, order=order, gap1=params.gap1, gap3=params.gap3, sync=params.sync, gap2=params.gap2,
                    index_mark=params.index_mark, gap4_min=params.gap4, id_override=ido)
            cells = bytearray(tr.c)
            ops = []
            victims = []
            if style == 'same-sector-every-track':
                victims = [(idx % spt, rng.choice(['dam', 'idam', 'data', 'crc', 'idfield']))]
            elif style == 'highest-record-every-track':
                victims = [(spt - 1, rng.choice(['dam', 'idam', 'data']))]
            elif style == 'lowest-record-every-track':
                victims = [(0, rng.choice(['dam', 'idam', 'data']))] if t > 0 else []
            elif style == 'double-fault-every-track':
                i = (idx * 7) % (spt - 1)
                victims = [(order[i], 'dam'), (order[i + 1], 'idam')]
            elif style == 'one-track' and t == tracks // 2:
                victims = [(rng.randrange(spt), rng.choice(REGIONS))]
            elif style == 'random' and rng.random() < 0.5:
                victims = [(rng.randrange(spt), rng.choice(REGIONS)) for _ in range(rng.randint(1, 3))]
            for (r, region) in victims:
                a, b = region_span(tr, r, region, enc)
                a, b = adj(ops, a), adj(ops, b)
                how = rng.choice(['zero', 'flip', 'flip', 'ins', 'del'])
                if how == 'zero':
                    flux.zero_run(cells, a, b)
                elif how == 'flip':
                    flux.flip(cells, rng.randrange(a, b))
                elif how == 'ins':
                    at = rng.randrange(a, b)
                    flux.insert_cell(cells, at, 1)
                    ops.append(('ins', at))
                else:
                    at = rng.randrange(a, b)
                    flux.delete_cell(cells, at)
                    ops.append(('del', at))
                damaged.add((t, r))
            if kind == 'mfm':
                packed[(t, 0)] = flux.pack_msb_first(cells)
            else:
                raw = flux.pack_lsb_first(flux.fm_to_hfe_cells(cells) if enc == 'fm' else cells)
                if kind == 'hfe3':
                    raw, _ = flux.insert_v3_opcodes(rng, raw, n=rng.randrange(0, 4))
                packed[t] = raw
        if kind == 'mfm':
            data = flux.hxcmfm_file(packed, tracks, 1)
            path = os.path.join(tmp, 'd.mfm')
        else:
            data = flux.hfe_file([packed[t] for t in range(tracks)], None, 2 if enc == 'fm' else 0, 1 if kind == 'hfe1' else 3)
            path = os.path.join(tmp, 'd.hfe')
        write_file(path, data)
        files = {os.path.basename(path): data} if len(data) < 1500000 else {}
        res.seen('image_damage_styles', style)
        res.seen('image_kinds', kind + '/' + enc)
        # probe damaged sectors and their neighbours
        probes = set()
        for (t, r) in list(damaged)[:6]:
            for dr in (-1, 0, 1):
                if 0 <= r + dr < spt:
                    probes.add((t, r + dr))
        for _ in range(4):
            probes.add((rng.randrange(tracks), rng.randrange(spt)))
        accepted = 0
        for (t, r) in sorted(probes):
            r_ = dfs(dfsbin, path, ['dump-sector', '0', str(t), str(r)], trace=True, timeout=60)
            res.execs += 1
            if screen(res, r_, PROP, 'dump-sector', files):
                continue
            res.events += 1
            # adapter hook: the sector handed out must carry the requested address
            for line in r_.trace.splitlines():
                f = line.split()
                if f[0] == 'X' and f[-1] == 'found':
                    res.add('hook_X_lookups', 1)
            if r_.rc != 0:
                res.add('reads_refused', 1)
                continue
            accepted += 1
            got = parse_hexdump(r_.out)
            want = img[(t * spt + r) * 256:(t * spt + r + 1) * 256]
            res.add('reads_delivered', 1)
            if got != want:
                fp = dm.parse_fingerprint(got) if got else None
                res.violation('image-misaddressed:%s' % kind if fp else 'image-damaged-data:%s' % kind,
                              'dump-sector 0 %d %d returned %s with exit 0' % (t, r, ('the data recorded at track %d sector %d'
                                                                                    % (fp[2] // spt, fp[2] % spt)) if fp else 'data that was not recorded there'),
                              {'style': style, 'damaged': sorted(damaged)[:20], 'params': params.describe(), 'run': r_.brief()},
                              files, r_.argv)
        res.sigs.append('img|%s|%s|%s|%d|%d' % (kind, enc, style, tracks, idx))
        res.sample = {'kind': kind, 'enc': enc, 'style': style, 'tracks': tracks, 'damaged_sectors': len(damaged),
                      'reads_delivered': accepted}
    return res


def dispatch(spec):
    if spec[1] == 'rec':
        return decoder_case((spec[0],) + spec[2:], 'recode-all')
    if spec[1] == 'crcb':
        return decoder_case((spec[0],) + spec[2:], 'crc-bits')
    return {'dec': decoder_case, 'arb': arbitrary_case, 'img': image_case}[spec[1]]((spec[0],) + spec[2:])


def main(tier, seed, scale=1.0):
    BIN['san'] = build.ensure('san')
    BIN['dech'] = build.harness('dech', ['dech.cc'], repo_sources=['dfs/track.cc', 'dfs/track_fm.cc', 'dfs/track_mfm.cc',
                                                                   'dfs/crc16.cc', 'dfs/hexdump.cc'])
    q = tier == 'quick'
    specs = [(seed, 'dec', i, tier) for i in range(int((160 if q else 8000) * scale))] + \
            [(seed, 'rec', i, tier) for i in range(int((120 if q else 4000) * scale))] + \
            [(seed, 'crcb', i, tier) for i in range(max(2, int((24 if q else 600) * scale)))] + \
            [(seed, 'arb', i, tier) for i in range(int((40 if q else 1500) * scale))] + \
            [(seed, 'img', i, tier) for i in range(int((150 if q else 3000) * scale))]
    rule = ('dec cases: 25 valid FM/MFM tracks each (10/16/18 spt, random legal parameters) with damage styles random / '
            'lost-record / double-fault / slips / zeros / truncate / recode (field re-encoded with legal clocks, wrong bytes and the stale CRC; rec cases recode every sector; crcb cases flip each of the 16 bits of a recorded data or ID CRC in turn) applied to chosen regions (sync, ID mark, ID field, gap2, '
            'data mark, data, CRC); every sector the real decoders yield must be the recorded data for that address or '
            'CRC-valid at its home position in the damaged stream; arb cases: 30 arbitrary streams each (random bits, '
            'constant, spliced fragments at arbitrary bit offsets, odd size codes, truncated) judged by an independent '
            'scanner of all CRC-valid ID and data fields; img cases: damaged HFE v1/v3 and HxC MFM images (same sector '
            'on every track, highest record on every track, double faults, random) read with dump-sector, every '
            'delivered sector attributed by fingerprint; distinct = (kind, encoding, damage log, case)')
    return run_check(PROP, 'fault_enumeration', dispatch, specs, tier, seed, rule,
                     assumptions=['data marks are recorded within the controller window of their ID (gap2 11/22, sync <= 8/14)',
                                  'a CRC-16 collision at the home position of a damaged field is benign and is counted, not reported'])
