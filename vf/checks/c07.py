"""C07 -- dfs fails cleanly on arbitrary image files and command lines.

Monitors on every execution: termination by signal, exit status outside
{0,1,2}, missing 'returned from main' hook record, ASan / UBSan / libstdc++
assertion report (incl. allocations above 256 MiB), watchdog (re-run once
alone before a hang is reported), non-zero status with empty stderr; on the
release build the peak RSS of the process.  Workload: vf.hostile.
"""
import os
import resource

from .. import build, hostile
from ..dfsutil import case_rng, write_file
from ..execu import run, clean_failure_key
from ..runner import run_check, CaseResult, Scratch

import shutil

PROP = 'C07'
BIN = {}
VALGRIND = shutil.which('valgrind')
RSS_LIMIT_KB = 512 * 1024


def judge_run(res, r_, files, what, build_name, rerun):
    """common verdict for one hostile execution"""
    res.events += 1
    k = clean_failure_key(r_, (0, 1, 2))
    if k == 'hang':
        flag = os.environ.get('VERIF_HANGFLAG')
        if flag and os.path.exists(flag):
            # a hang has already been confirmed in this run: do not spend another minute on each one
            res.violation('hang:' + what, 'no termination within the watchdog limit (a hang was already confirmed '
                          'by a 40 s re-run in this run)', r_.brief(), files, r_.argv)
            return False
        r2 = rerun(40)       # re-run once, alone, with a generous limit
        if r2.timed_out:
            if flag:
                open(flag, 'w').close()
            res.violation('hang:' + what, 'no termination within 40 s (re-run alone)', r2.brief(), files, r2.argv)
        else:
            res.inconclusive.append('watchdog fired once for %r but the re-run finished in %.1fs' % (r_.argv[1:], r2.wall))
        return False
    if k:
        res.violation('%s:%s' % (build_name, k), 'unclean termination (%s) [%s]' % (k, what), r_.brief(), files, r_.argv)
        return False
    if ('RET %d' % r_.rc) not in r_.trace:
        res.violation('no-return-from-main:%s' % build_name, 'exit status %d without returning from main' % r_.rc,
                      {'trace_tail': r_.trace[-300:], 'run': r_.brief()}, files, r_.argv)
        return False
    if r_.rc != 0 and not r_.err.strip():
        res.violation('silent-failure:%s' % (r_.argv[-1] if False else what.split('|')[-1]),
                      'exit status %d with empty stderr' % r_.rc, r_.brief(), files, r_.argv)
        return False
    return True


def watchdog():
    flag = os.environ.get('VERIF_HANGFLAG')
    return 5 if (flag and os.path.exists(flag)) else 12


def case(spec):
    seed, idx, tier = spec
    rng = case_rng(seed, PROP, idx)
    res = CaseResult()
    with Scratch('c07') as tmp:
        dest = os.path.join(tmp, 'dest')
        os.mkdir(dest)
        ext = hostile.EXTS[idx % len(hostile.EXTS)]
        base = hostile.base_image(rng, ext, small=(idx % 23 != 0))
        for rep in range(3):
            data, how = hostile.mutate(rng, base)
            name = 'h.' + ext
            gz = rng.random() < 0.25
            if gz:
                data, gzhow = hostile.gz_wrap(rng, data)
                how += '+' + gzhow
                name += '.gz'
            path = os.path.join(tmp, name)
            write_file(path, data)
            files = {name: data} if len(data) < 3000000 else {'how.txt': how.encode()}
            second = None
            if rng.random() < 0.1:
                # a second image on the command line
                b2 = hostile.base_image(rng, rng.choice(['ssd', 'dsd']))
                d2, _ = hostile.mutate(rng, b2)
                second = os.path.join(tmp, 'second.' + b2['ext'])
                write_file(second, d2)
            for c in range(4 if tier == 'quick' else 6):
                pre, args = hostile.command_line(rng, base['info'])
                args = [dest if a == '@DEST@' else a for a in args]
                fileopts = ['--file', path] + (['--file', second] if second else [])
                if rng.random() < 0.05:
                    fileopts = rng.choice([[], ['--file'], ['--file', os.path.join(tmp, 'missing.ssd')], ['--file', tmp],
                                           ['--file', path + '.unknownext'], ['--file', 'noext']])
                variant = 'sanassert' if (c == 1 or rng.random() < 0.2) else 'san'
                argv = [BIN[variant]['dfs']] + pre + fileopts + args
                what = '%s|%s|%s' % (ext + ('.gz' if gz else ''), how.split(':')[0], args[0] if args else 'none')

                def rerun(t, argv=argv):
                    return run(argv, cwd=tmp, timeout=t, trace=True)
                r_ = run(argv, cwd=tmp, timeout=watchdog(), trace=True)
                res.execs += 1
                ok = judge_run(res, r_, files, what, variant, rerun)
                res.sigs.append('%s|%s|%s|%d' % (what, variant, ' '.join(args[1:3])[:16], r_.rc if r_.rc is not None else -99))
                res.seen('mutation_kinds', how.split(':')[0].split('+')[0])
                res.seen('extensions', ext + ('.gz' if gz else ''))
                res.seen('commands', args[0] if args else '(none)')
                res.seen('exit_statuses', r_.rc)
                if ok and c == 0:
                    # memory monitor on the release build: peak RSS of this child
                    before = resource.getrusage(resource.RUSAGE_CHILDREN).ru_maxrss
                    argv2 = [BIN['rel']['dfs']] + pre + fileopts + args
                    r2 = run(argv2, cwd=tmp, timeout=watchdog(), trace=True, as_limit=4 << 30)
                    res.execs += 1
                    after = resource.getrusage(resource.RUSAGE_CHILDREN).ru_maxrss
                    res.add('rss_monitored_runs', 1)
                    judge_run(res, r2, files, what, 'rel', lambda t, a=argv2: run(a, cwd=tmp, timeout=t, trace=True))
                    if after > RSS_LIMIT_KB and before <= RSS_LIMIT_KB and len(data) <= (4 << 20):
                        res.violation('memory:rel', 'peak RSS %d MiB for an input of %d bytes' % (after // 1024, len(data)),
                                      r2.brief(), files, r2.argv)
                    if ok and VALGRIND and rng.random() < float(os.environ.get("VERIF_MEMCHECK_RATE", 0.012 if tier == "quick" else 0.03)):
                        # uninitialised reads are invisible to ASan: memcheck on the release build, sampled
                        v_ = run([VALGRIND, '-q', '--error-exitcode=99', BIN['rel']['dfs']] + pre + fileopts + args,
                                 cwd=tmp, timeout=180)
                        res.execs += 1
                        res.add('memcheck_runs', 1)
                        if v_.rc == 99 or b'Invalid read' in v_.err or b'Invalid write' in v_.err or \
                                b'uninitialised' in v_.err:
                            res.violation('memcheck:%s' % what, 'valgrind memcheck reports an error on the release build',
                                          v_.brief(), files, v_.argv)
                    if ok and r2.rc is not None and (r2.rc, r2.out) != (r_.rc, r_.out) and variant == 'san':
                        res.violation('rel-vs-san-differ', 'release and sanitizer builds of the same tree disagree',
                                      {'san': r_.brief(), 'rel': r2.brief()}, files, r2.argv)
            if rep == 0:
                res.sample = {'ext': name, 'mutation': how, 'size': len(data), 'last_argv_tail': (pre + args)[:8]}
    return res


def main(tier, seed, scale=1.0):
    BIN.update(build.ensure_many(['san', 'sanassert', 'rel']))
    flag = '/dev/shm/verif-hangflag-%d' % os.getpid()
    if os.path.exists(flag):
        os.unlink(flag)
    os.environ['VERIF_HANGFLAG'] = flag
    n = int((1260 if tier == 'quick' else 20000) * scale)
    specs = [(seed, i, tier) for i in range(n)]
    rule = ('one case = one valid base image of one of the 7 extensions, 3 hostile variants of it (header-biased byte/bit '
            'edits, truncation at structure boundaries +-1 and at 0..32 bytes, extreme length/offset/count fields, random '
            'bytes, block zero/dup, extension; 25% wrapped in valid or hostile gzip) x 4 (6) fuzzed command lines each '
            '(all commands, fuzzed drive numbers / names / wildcards / options, --verbose, second image, missing --file) '
            'on the NDEBUG and assertion sanitizer builds plus a release-build run with RSS monitor; distinct = (extension, '
            'mutation kind, command, build, arguments, status)')
    try:
        return _go(specs, tier, seed, rule)
    finally:
        if os.path.exists(flag):
            os.unlink(flag)


def _go(specs, tier, seed, rule):
    return run_check(PROP, 'exploration', case, specs, tier, seed, rule,
                     assumptions=['tmpfile / zlib / memory exhaustion faults of the environment are out of scope',
                                  'ASan does not see intra-object over-reads (DESIGN.md section 0)'])
