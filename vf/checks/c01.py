"""C01 -- dfs delivers each catalogued file's bytes exactly.

Oracle: truth bodies of generated discs (vf.discmodel); renderers for type /
list / dump from doc/dfs.1.  Every run is on the ASan+UBSan build.
"""
import os

from .. import build, discmodel as dm, refmodel as rm
from ..dfsutil import case_rng, make_image, dfs, screen, spellings
from ..runner import run_check, CaseResult, Scratch

PROP = 'C01'
BIN = {}


def attribute(surface, got, exp):
    """Where do the wrong bytes come from?  (diagnostics only)"""
    n = min(len(got), len(exp))
    i = next((k for k in range(n) if got[k] != exp[k]), n)
    info = {'first_diff': i, 'got_len': len(got), 'exp_len': len(exp)}
    blk = got[(i // 256) * 256:(i // 256) * 256 + 256]
    fp = dm.parse_fingerprint(blk) if len(blk) >= 8 else None
    if fp:
        info['block_is_fingerprint_of'] = {'surface': fp[1], 'lba': fp[2]}
    return info


def case(spec):
    seed, idx, tier = spec
    rng = case_rng(seed, PROP, idx)
    res = CaseResult()
    dfsbin = BIN['san']['dfs']
    with Scratch('c01') as tmp:
        style = None
        kw = {}
        r = rng.random()
        if r < 0.15:
            kw['style'] = 'big'
            kw['nfiles'] = rng.randint(1, 4)
        img = make_image(rng, tmp, **kw)
        files = {os.path.basename(img.path): open(img.path, 'rb').read()} if os.path.getsize(img.path) < 3000000 else {}
        res.seen('containers', os.path.splitext(img.path)[1])
        percap = 6 if tier == 'quick' else 14
        for s, drive in zip(img.surfaces, img.drives):
            res.seen('variants', s.variant)
            res.seen('geometries', '%dx%d' % (s.tracks, s.spt))
            for v in s.volumes:
                ents = v.cat.all_entries()
                res.seen('nfiles', len(ents))
                cur_dir = rng.choice(['$', '$', ents[0].dir if ents else 'A', 'Q'])
                cur_drive = rng.choice([0, drive])
                cur_vol = rng.choice([None, v.label])
                pre = []
                if cur_dir != '$' or rng.random() < 0.2:
                    pre += ['--dir', cur_dir]
                if cur_drive != 0 or cur_vol or rng.random() < 0.2:
                    pre += ['--drive', '%d%s' % (cur_drive, cur_vol or '')]
                else:
                    cur_vol = None
                chosen = ents if len(ents) <= percap else rng.sample(ents, percap)
                # always include boundary files: highest start, longest, zero-length
                if ents:
                    extra = [max(ents, key=lambda e: e.start), max(ents, key=lambda e: e.length),
                             min(ents, key=lambda e: e.length)]
                    for e in extra:
                        if e not in chosen:
                            chosen.append(e)
                    for e in ents:
                        if e not in chosen and any(ch in '[]{}\\|^~@`' for ch in e.name) and rng.random() < 0.6:
                            chosen.append(e)
                for e in chosen:
                    sp = rng.choice(spellings(rng, e, drive, v.label, cur_dir, cur_drive, cur_vol))
                    cmds = [('type-binary', ['type', '--binary', sp])]
                    k = rng.random()
                    if e.length <= 70000 or rng.random() < 0.1:
                        if k < 0.34:
                            cmds.append(('type', ['type', sp]))
                        elif k < 0.67:
                            cmds.append(('list', ['list', sp]))
                        else:
                            cmds.append(('dump', ['dump', sp]))
                    for what, args in cmds:
                        r_ = dfs(dfsbin, img.path, args, pre=pre)
                        res.execs += 1
                        res.events += 1
                        if screen(res, r_, PROP, what, files):
                            continue
                        ok = True
                        detail = {}
                        if r_.rc != 0:
                            ok = False
                            detail = {'why': 'exit status %d' % r_.rc}
                        elif what == 'type-binary':
                            if r_.out != e.body:
                                ok = False
                                detail = attribute(s, r_.out, e.body)
                        elif what == 'type':
                            if r_.out != rm.render_type(e.body):
                                ok = False
                                detail = attribute(s, r_.out, rm.render_type(e.body))
                        elif what == 'list':
                            if r_.out != rm.render_list(e.body):
                                ok = False
                                detail = attribute(s, r_.out, rm.render_list(e.body))
                        elif what == 'dump':
                            err = rm.check_dump(r_.out, e.body)
                            if err:
                                ok = False
                                detail = {'why': err}
                        if not ok:
                            detail.update({'entry': e.brief(), 'volume': v.label, 'drive': drive,
                                           'surface': s.describe(), 'run': r_.brief()})
                            res.violation('%s-mismatch' % what,
                                          '%s output differs from the recorded bytes of %s' % (what, e.full),
                                          detail, files, r_.argv)
                        res.sigs.append('%s|%s|%d|%03x|%05x|%s' % (what, s.variant, s.spt, e.start, e.length,
                                                                 sp[:3]))
                        res.seen('start_hi_bits', e.start >> 8)
                        res.seen('len_hi_bits', e.length >> 16)
                        res.seen('len_mod_256_class', 0 if e.length == 0 else (1 if e.length % 256 == 0 else 2))
                        res.seen('spelling_kinds', ('colon' if sp.startswith(':') else 'bare') + ('.dir' if (len(sp) > 2 and sp.lstrip(':0123456789ABCDEFGH')[1:2] == '.') else ''))
                # extract-files for this volume
                dest = os.path.join(tmp, 'out-%d-%s' % (drive, v.label or 'x'))
                os.mkdir(dest)
                pre2 = ['--drive', '%d%s' % (drive, v.label or '')]
                xdir = rng.choice(['$', '.', cur_dir])
                pre2 += ['--dir', xdir]
                r_ = dfs(dfsbin, img.path, ['extract-files', dest + rng.choice(['', '/'])], pre=pre2)
                res.execs += 1
                if screen(res, r_, PROP, 'extract-files', files):
                    continue
                if r_.rc != 0:
                    res.violation('extract-files-failed', 'extract-files failed on a well-formed disc',
                                  {'run': r_.brief(), 'surface': s.describe()}, files, r_.argv)
                    continue
                infs = sorted(f for f in os.listdir(dest) if f.endswith('.inf'))
                byname = {e.full: e for e in ents}
                seen = set()
                for inf in infs:
                    d = rm.parse_inf(open(os.path.join(dest, inf), 'rb').read())
                    if d is None or d['name'] not in byname:
                        res.violation('extract-files-inf', 'unparseable or unknown .inf %r' % inf,
                                      {'content': open(os.path.join(dest, inf), 'rb').read()[:200],
                                       'surface': s.describe()}, files, r_.argv)
                        continue
                    e = byname[d['name']]
                    seen.add(d['name'])
                    bp = os.path.join(dest, inf[:-4])
                    body = open(bp, 'rb').read() if os.path.isfile(bp) else None
                    res.events += 1
                    if body != e.body:
                        det = attribute(s, body or b'', e.body)
                        det.update({'entry': e.brief(), 'surface': s.describe()})
                        res.violation('extract-files-mismatch',
                                      'extracted body of %s differs from the recorded bytes' % e.full,
                                      det, files, r_.argv)
                if seen != set(byname):
                    res.violation('extract-files-missing', 'files not extracted: %r' % sorted(set(byname) - seen)[:5],
                                  {'surface': s.describe(), 'listing': sorted(os.listdir(dest))[:80]},
                                  files, r_.argv)
                res.sigs.append('extract|%s|%d|%d' % (s.variant, s.spt, len(ents)))
        res.sample = {'image': os.path.basename(img.path), 'surfaces': [s.describe() for s in img.surfaces][:1]}
    return res


def main(tier, seed, scale=1.0):
    BIN['san'] = build.ensure('san')
    n = int((300 if tier == 'quick' else 10000) * scale)
    specs = [(seed, i, tier) for i in range(n)]
    rule = ('one case = one generated well-formed disc (Acorn/Watford/Opus x ssd/sdd/dsd/ddd x layouts); every '
            'chosen file is read with type --binary plus one of type/list/dump under a random equivalent '
            'spelling and --dir/--drive default, and every volume is extracted with extract-files; distinct = '
            '(command, variant, spt, start sector, length, spelling class)')
    return run_check(PROP, 'exploration', case, specs, tier, seed, rule,
                     assumptions=['discs are well-formed per Appendix A of DESIGN.md; names avoid . : # * " and space',
                                  'HDFS not generated (documented as unsupported)',
                                  'offset column of dump accepted in decimal or hexadecimal'])
