"""C18 -- diagnostic and presentation options never change the data shown.

Metamorphic monitor: for valid and hostile images of every container (flux
images included) and every command, adding --verbose / --show-config in any
position must leave stdout and the exit status unchanged; --ui and COLUMNS
(stdout on a pty or a file) may only change the layout of cat; the order of
--drive / --dir / --ui must not matter; repeated runs must be identical.
"""
import os
import pty
import re
import select
import subprocess

from .. import build, discmodel as dm, hostile, refmodel as rm
from ..dfsutil import case_rng, make_image, write_file
from ..execu import run, clean_failure_key, SAN_ENV
from ..runner import run_check, CaseResult, Scratch
from . import c05

PROP = 'C18'
BIN = {}
COLUMNS = [None, '0', '1', '20', '39', '40', '79', '80', '200', 'junk', '100000000000000000000', '-5', '']


def run_pty(argv, env_extra, cwd=None, timeout=30):
    """stdout on a pseudo-terminal (so that COLUMNS is honoured)"""
    master, slave = pty.openpty()
    env = dict(os.environ)
    env.update(SAN_ENV)
    env.pop('COLUMNS', None)
    env.update(env_extra)
    p = subprocess.Popen(argv, stdin=subprocess.DEVNULL, stdout=slave, stderr=subprocess.PIPE, env=env, cwd=cwd, close_fds=True)
    os.close(slave)
    out = b''
    while True:
        r, _, _ = select.select([master], [], [], timeout)
        if not r:
            p.kill()
            break
        try:
            c = os.read(master, 65536)
        except OSError:
            break
        if not c:
            break
        out += c
    os.close(master)
    try:
        _, err = p.communicate(timeout=timeout)
    except subprocess.TimeoutExpired:
        p.kill()
        _, err = p.communicate()
    return p.returncode, out.replace(b'\r\n', b'\n'), err


def cat_info(out):
    """the information content of a cat listing, layout removed"""
    p = rm.parse_cat(out)
    hdr = p['header'].decode('latin1')
    cyc = re.search(r'\(([0-9A-Fa-f]{2})\)', hdr)
    opt = re.search(r'Option (\d) \((\w+)\)', hdr)
    drv = re.search(r'Drive (\S+)', hdr)
    return {'entries': sorted((d or '', n, l) for d, n, l in p['entries']),
            'cycle': cyc.group(1).lower() if cyc else None, 'option': opt.group(0) if opt else None,
            'drive': drv.group(1) if drv else None}


def insertions(rng, base_opts, extra):
    """argv option lists with `extra` options inserted at random positions among base_opts (all before the command)"""
    opts = list(base_opts)
    for e in extra:
        # keep option+argument pairs together: positions between whole options only
        cut = [0]
        i = 0
        while i < len(opts):
            i += 2 if opts[i] in ('--file', '--drive', '--dir', '--ui') else 1
            cut.append(i)
        at = rng.choice(cut)
        opts[at:at] = e
    return opts


def case(spec):
    seed, kind, idx, tier = spec
    rng = case_rng(seed, PROP, (kind, idx))
    res = CaseResult()
    dfsbin = BIN['san']['dfs']
    with Scratch('c18') as tmp:
        dest = os.path.join(tmp, 'dest')
        os.mkdir(dest)
        info = {}
        surfaces = None
        if kind == 'valid':
            sub = idx % 5
            if sub == 0:
                img = make_image(rng, tmp, maxlen_sectors=10)
                path, surfaces, drives = img.path, img.surfaces, img.drives
            elif sub == 1:
                img = make_image(rng, tmp, kind='single', variant='opus', maxlen_sectors=10)
                path, surfaces, drives = img.path, img.surfaces, img.drives
            elif sub == 2:
                # flux image of a generated disc (v1 / v3 with opcodes / HxC MFM)
                enc = rng.choice(['fm', 'mfm'])
                spt = 10 if enc == 'fm' else 18
                tracks = rng.choice([35, 40])
                sides = rng.choice([1, 2])
                surfaces = c05.make_disc(rng, enc, spt, tracks, sides)
                images = [c05.side_image(s, tracks, spt) for s in surfaces]
                fk = rng.choice(['hfe1', 'hfe3', 'hfe3'] + (['mfm'] if enc == 'mfm' else []))
                data, desc = c05.build_flux(rng, fk, enc, spt, tracks, images, res)
                path = os.path.join(tmp, 'f.' + ('mfm' if fk == 'mfm' else 'hfe'))
                write_file(path, data)
                drives = [0, 2][:sides]
                res.seen('flux_kinds', fk)
            elif sub == 4:
                # a two-sided container of which only the first side carries a file system (the other is blank,
                # never formatted, or noise): how the geometry is settled must not depend on the diagnostics
                ext = rng.choice(['dsd', 'dsd', 'ddd'])
                spt = 10 if ext == 'dsd' else 18
                tr = rng.choice([80, 80, 40])
                s0 = dm.gen_surface(rng, variant=rng.choice(['acorn', 'watford']), spt=spt, sid=0, maxlen_sectors=10, tracks=tr,
                                    total=tr * spt if tr * spt <= 1023 else None)
                blank = rng.choice([b'\0', b'\xe5', None])
                side1 = (blank * (s0.nsectors * 256)) if blank else rng.randbytes(s0.nsectors * 256)
                a0 = s0.image()
                tb = spt * 256
                raw2 = b''.join(a0[t * tb:(t + 1) * tb] + side1[t * tb:(t + 1) * tb] for t in range(s0.tracks))
                path = os.path.join(tmp, 'b.' + ext)
                write_file(path, raw2)
                surfaces, drives = [s0], [0]
                res.add('blank_second_side_images', 1)
            else:
                slots = {}
                surfaces = []
                for k in (0, 1, 5):
                    s = dm.gen_surface(rng, variant='acorn', spt=10, total=800, tracks=80, maxlen_sectors=4, nfiles=3)
                    slots[k] = (0x0F, s.image())
                    surfaces.append(s)
                path = os.path.join(tmp, 'a.mmb')
                dm.mmb_file(path, slots)
                drives = [0, 2, 10]
            raw = None
        else:
            b = hostile.base_image(rng, None)
            data, how = hostile.mutate(rng, b)
            name = 'h.' + b['ext']
            if rng.random() < 0.2:
                data, gh = hostile.gz_wrap(rng, data)
                name += '.gz'
            path = os.path.join(tmp, name)
            write_file(path, data)
            info = b['info']
            drives = [0, 2]
        files = {os.path.basename(path): open(path, 'rb').read()} if os.path.getsize(path) < 2500000 else {}
        # ---------------- commands
        cmds = []
        if surfaces:
            for s, d in zip(surfaces, drives):
                for v in s.volumes[:3]:
                    dv = '%d%s' % (d, v.label or '')
                    cmds += [(['--drive', dv], ['info', '#.*']), (['--drive', dv], ['free']), ([], ['space', dv]),
                             (['--drive', dv], ['cat'])]
                    ents = v.cat.all_entries()
                    if ents:
                        e = rng.choice(ents)
                        cmds.append((['--drive', dv, '--dir', e.dir], [rng.choice(['type', 'dump', 'list']), e.name]))
                cmds += [([], ['sector-map', str(d)]), ([], ['dump-sector', str(d), '1', '1']), ([], ['show-titles', str(d)]),
                         (['--drive', str(d)], ['extract-unused', dest])]
            rng.shuffle(cmds)
            cmds = cmds[:6 if tier == 'quick' else 12]
        else:
            for _ in range(5):
                pre, args = hostile.command_line(rng, info)
                pre = [x for x in pre if x not in ('--verbose', '--show-config')]
                args = [dest if a == '@DEST@' else a for a in args]
                cmds.append((pre, args))
        for pre, args in cmds:
            if not args:
                continue
            base_opts = ['--file', path] + pre
            # now and then the diagnostics cannot be written at all: that must not change stdout or the status either
            errdev = '/dev/full' if rng.random() < 0.12 else None
            if errdev:
                res.add('runs_with_unwritable_stderr', 1)
            a = run([dfsbin] + base_opts + args, cwd=tmp, timeout=60, stderr_path=errdev)
            res.execs += 1
            ka = clean_failure_key(a, (0, 1, 2))
            if ka:
                res.violation('base:%s' % ka, 'unclean termination (without any diagnostic option)', a.brief(), files, a.argv)
                continue
            variants = [('repeat', base_opts)]
            for extra in ([['--verbose']], [['--show-config']], [['--verbose'], ['--show-config']]):
                variants.append(('+'.join(x[0] for x in extra), insertions(rng, base_opts, extra)))
            # --verbose before any --file makes the image loaders talk as well
            variants.append(('--verbose-first', ['--verbose'] + base_opts))
            if len(pre) >= 2:
                # order of the context options
                pairs = []
                i = 0
                while i < len(pre):
                    n = 2 if pre[i] in ('--drive', '--dir', '--ui') else 1
                    pairs.append(pre[i:i + n])
                    i += n
                rng.shuffle(pairs)
                variants.append(('option-order', ['--file', path] + [x for p_ in pairs for x in p_]))
            for vname, opts in variants:
                for f in os.listdir(dest):
                    os.unlink(os.path.join(dest, f))
                b_ = run([dfsbin] + opts + args, cwd=tmp, timeout=60, stderr_path=errdev)
                res.execs += 1
                res.events += 1
                kb = clean_failure_key(b_, (0, 1, 2))
                if kb:
                    res.violation('only-with-%s:%s' % (vname, kb), 'unclean termination only with %s' % vname, b_.brief(), files, b_.argv)
                    continue
                if (a.rc, a.out) != (b_.rc, b_.out):
                    res.violation('output-changed-by:%s:%s' % (vname, args[0]),
                                  'stdout or exit status of %s changes with %s' % (args[0], vname),
                                  {'without': a.brief(), 'with': b_.brief()}, files, b_.argv)
                if vname in ('--verbose', '--show-config', '--verbose+--show-config') and a.rc == 0 and not b_.err.strip() and kind == 'valid' \
                        and 'show-config' in vname and not errdev:
                    res.violation('show-config-silent', '--show-config printed nothing on stderr', b_.brief(), files, b_.argv)
                res.sigs.append('%s|%s|%s|%d' % (kind, vname, args[0], idx))
            # ---------------- --ui and COLUMNS: layout only
            uis = [None, 'acorn', 'watford', 'opus']
            if args[0] == 'cat' and a.rc == 0:
                ref = cat_info(a.out)
                for _ in range(4 if tier == 'quick' else 10):
                    ui = rng.choice(uis)
                    col = rng.choice(COLUMNS)
                    opts = list(base_opts) + (['--ui', ui] if ui else [])
                    if rng.random() < 0.5:
                        opts = (['--ui', ui] if ui else []) + list(base_opts)
                    env = {} if col is None else {'COLUMNS': col}
                    if rng.random() < 0.6:
                        rc, out, err = run_pty([dfsbin] + opts + args, env, cwd=tmp)
                        how = 'pty'
                    else:
                        r2 = run([dfsbin] + opts + args, cwd=tmp, env=env)
                        rc, out, err = r2.rc, r2.out, r2.err
                        how = 'file'
                    res.execs += 1
                    res.events += 1
                    res.seen('columns_values', str(col))
                    got = cat_info(out) if rc == 0 else None
                    if rc != 0 or got != ref:
                        res.violation('cat-content-changed-by-ui-or-columns',
                                      'cat reports different files / metadata with --ui %s COLUMNS=%r (%s)' % (ui, col, how),
                                      {'reference': ref, 'got': got, 'rc': rc, 'stdout': out[:600], 'stderr': err[:300]},
                                      files, [dfsbin] + opts + args)
                    res.sigs.append('cat|%s|%s|%s|%d' % (ui, col, how, idx))
            elif a.rc == 0 and args[0] in ('info', 'free', 'type', 'dump', 'list', 'space', 'sector-map', 'show-titles') \
                    and '--ui' not in pre:
                ui = rng.choice(uis[1:])
                col = rng.choice(COLUMNS)
                opts = insertions(rng, base_opts, [['--ui', ui]])
                r2 = run([dfsbin] + opts + args, cwd=tmp, env={} if col is None else {'COLUMNS': col})
                res.execs += 1
                res.events += 1
                if (r2.rc, r2.out) != (a.rc, a.out):
                    res.violation('output-changed-by:--ui:%s' % args[0], '%s output changes with --ui %s' % (args[0], ui),
                                  {'without': a.brief(), 'with': r2.brief()}, files, r2.argv)
        res.sample = {'kind': kind, 'image': os.path.basename(path), 'commands': [' '.join(p + c)[:50] for p, c in cmds[:4]]}
    return res


def main(tier, seed, scale=1.0):
    BIN['san'] = build.ensure('san')
    q = tier == 'quick'
    specs = [(seed, 'valid', i, tier) for i in range(int((60 if q else 1500) * scale))] + \
            [(seed, 'hostile', i, tier) for i in range(int((120 if q else 3000) * scale))]
    rule = ('one case = one image (valid: ssd/sdd/dsd/ddd, Opus multi-volume, flux v1/v3/HxC, MMB; hostile: mutated images '
            'of every extension) x 5-12 commands; each command is repeated, run with --verbose / --show-config / both '
            'inserted at random option positions, with --verbose first, and with --drive/--dir/--ui reordered: stdout and '
            'status must not change; cat is re-run under --ui x COLUMNS (13 values) on a pty and on a file and must report '
            'the same entries, locks, cycle, option and drive; other commands must not change with --ui; distinct = '
            '(kind, variant, command, case)')
    return run_check(PROP, 'exploration', case, specs, tier, seed, rule,
                     assumptions=['the layout of cat (columns, header wording) is not judged'])
