"""C05 -- HFE and HxC-MFM flux images yield the same sectors as the equivalent
sector dump.

Metamorphic monitor: one generated disc is written as ssd/sdd (dsd/ddd when
two-sided) and as HFE v1, HFE v3 (with opcodes inserted anywhere) and HxC MFM
flux images with random legal recording parameters; every command must give
the same (stdout, exit status) on the flux image as on the sector dump.
"""
import os

from .. import build, discmodel as dm, flux
from ..dfsutil import case_rng, dfs, screen, write_file
from ..runner import run_check, CaseResult, Scratch

PROP = 'C05'
BIN = {}

TOTAL_RANGE = {('fm', 10): {35: (30, 350), 40: (351, 400), 80: (401, 800)},
               ('mfm', 18): {35: (40, 630), 40: (631, 720), 80: (721, 1023)},
               ('mfm', 16): {35: (40, 560), 40: (631, 640), 80: (721, 1023)}}


def make_disc(rng, enc, spt, tracks, sides):
    surfs = []
    for sd in range(sides):
        if enc == 'mfm' and spt == 18 and rng.random() < 0.3:
            s = dm.gen_surface(rng, variant='opus', tracks=tracks, sid=sd, maxlen_sectors=12)
        else:
            lo, hi = TOTAL_RANGE[(enc, spt)][tracks]
            total = rng.choice([hi, rng.randint(lo, hi)])
            s = dm.gen_surface(rng, variant=rng.choice(['acorn', 'acorn', 'watford']), spt=(10 if enc == 'fm' else 18),
                               total=total, tracks=tracks, sid=sd, maxlen_sectors=12,
                               nfiles=rng.choice([0, 1, 3, 8, 31, rng.randint(0, 20)]))
        surfs.append(s)
    return surfs


def side_image(s, tracks, spt):
    img = s.image()
    n = tracks * spt * 256
    return img[:n].ljust(n, b'\0')


def build_flux(rng, kind, enc, spt, tracks, images, res, tight=None):
    """-> (file bytes, description)"""
    params = flux.FluxParams(rng, enc, spt, tight)
    sides = len(images)
    per_side = []
    jitter = rng.random() < 0.5 or bool(tight)
    oplog_total = 0
    trailing_skip = kind == 'hfe3' and rng.random() < 0.5
    stale_ids = rng.random() < 0.3 and not params.tight
    for sd, img in enumerate(images):
        trs = []
        for t in range(tracks):
            secs = {rr: img[(t * spt + rr) * 256:(t * spt + rr + 1) * 256] for rr in range(spt)}
            fn = flux.fm_track if enc == 'fm' else flux.mfm_track
            # per-track length jitter goes into the leading gap so that the
            # last sector may still end right at the end of the track
            orph = None
            if stale_ids and rng.random() < 0.4:
                # stale sector IDs (good CRC, no data record behind them) left between the records of the
                # track: a controller that meets one finds no data mark in its window and goes on to the next ID
                orph = {}
                for rr in rng.sample(range(spt), rng.choice([1, 1, 2])):
                    orph[rr] = rng.choice([rr, rng.randrange(spt), spt + rng.randrange(8), 0])
                res.seen('stale_sector_ids', '%s:%d-per-track' % (enc, len(orph)))
            tr = fn(t, sd, secs, order=params.order(rng, spt, t), gap1=params.gap1 + ((t * 37) % 90 if jitter else 0),
                    gap3=params.gap3, sync=params.sync, gap2=params.gap2, index_mark=params.index_mark,
                    gap4_min=params.gap4, orphans=orph)
            trs.append(tr)
        per_side.append(trs)
    desc = params.describe()
    desc.update({'kind': kind, 'sides': sides, 'tracks': tracks, 'spt': spt, 'per_track_padding_jitter': jitter})
    if kind == 'mfm':
        d = {}
        for sd in range(sides):
            for t, tr in enumerate(per_side[sd]):
                d[(t, sd)] = flux.pack_msb_first(tr.c)
        return flux.hxcmfm_file(d, tracks, sides), desc
    packed = []
    for sd in range(sides):
        lst = []
        for tr in per_side[sd]:
            raw = flux.pack_lsb_first(flux.fm_to_hfe_cells(tr.c) if enc == 'fm' else tr.c)
            if kind == 'hfe3':
                raw, log = flux.insert_v3_opcodes(rng, raw)
                oplog_total += len(log)
                for (_, name, arg) in log:
                    res.seen('v3_opcodes', name if name != 'SKIPBITS' else 'SKIPBITS%d' % arg)
                if trailing_skip:
                    # a lone SKIPBITS after the last sector of the track: the cells that follow it are only gap
                    # filler, and whatever part of a byte is left over at the end of a track belongs to that track
                    k = rng.choice([1, 3, 5, 7, 2, 4])
                    fill = 0x11 if enc == 'fm' else 0x55
                    raw = raw + bytes([flux.rev8(flux.OP_SKIPBITS), flux.rev8(k)] + [fill] * rng.choice([1, 2, 5]))
                    res.seen('v3_opcodes', 'SKIPBITS%d-at-end-of-track' % k)
            lst.append(raw)
        packed.append(lst)
    exact = rng.random() < 0.5 or bool(tight)
    desc['lut_exact_length'] = exact
    desc['v3_opcodes_inserted'] = oplog_total
    desc['v3_lone_skipbits_at_end_of_every_track'] = trailing_skip
    desc['last_block_padded'] = rng.random() < 0.6
    return flux.hfe_file(packed[0], packed[1] if sides == 2 else None, 2 if enc == 'fm' else 0,
                         1 if kind == 'hfe1' else 3, lut_exact=exact, pad_last=desc['last_block_padded']), desc


def listing(d):
    out = {}
    for f in sorted(os.listdir(d)):
        out[f] = open(os.path.join(d, f), 'rb').read()
    return out


def case(spec):
    seed, idx, tier = spec
    rng = case_rng(seed, PROP, idx)
    res = CaseResult()
    dfsbin = BIN['san']['dfs']
    with Scratch('c05') as tmp:
        # stratified: every flux kind with one and with two sides in every run
        kind_sel = ['hfe1', 'hfe3', 'mfm'][idx % 3]
        enc = 'mfm' if kind_sel == 'mfm' else rng.choice(['fm', 'mfm'])
        spt = 10 if enc == 'fm' else rng.choice([18, 18, 16])
        tracks = rng.choice([35, 40, 80]) if idx % 4 == 0 else 40
        sides = 1 + (idx // 3) % 2
        if sides == 2 and spt == 16:
            spt = 18
        stratum_tight = idx % 5 == 4      # two-sided, tightly packed tracks, exact LUT lengths
        if stratum_tight:
            sides = 2
            if spt == 16:
                spt = 18
        if spt == 16:
            # an interleaved two-sided dump is always probed with 18 sectors per
            # track, so a 16-spt disc has no two-sided sector-dump equivalent
            sides = 1
        surfs = make_disc(rng, enc, spt, tracks, sides)
        if any(s.variant == 'opus' for s in surfs) and spt != 18:
            spt = 18
        images = [side_image(s, tracks, spt) for s in surfs]
        ext = {('fm', 1): 'ssd', ('fm', 2): 'dsd', ('mfm', 1): 'sdd', ('mfm', 2): 'ddd'}[(enc, sides)]
        ref = os.path.join(tmp, 'ref.' + ext)
        if sides == 1:
            write_file(ref, images[0])
        else:
            tb = spt * 256
            write_file(ref, b''.join(images[0][t * tb:(t + 1) * tb] + images[1][t * tb:(t + 1) * tb]
                                     for t in range(tracks)))
        kinds = ['hfe1', 'hfe3'] + (['mfm'] if enc == 'mfm' else [])
        if tier == 'quick':
            kinds = [kind_sel]
        if stratum_tight:
            kinds = [rng.choice(['hfe1', 'hfe3'])]
        drives = [0, 2][:sides]
        geom_comparable = spt in (10, 18)
        for kind in kinds:
            data, desc = build_flux(rng, kind, enc, spt, tracks, images, res, tight=True if stratum_tight else None)
            fpath = os.path.join(tmp, 'flux.' + ('mfm' if kind == 'mfm' else 'hfe'))
            write_file(fpath, data)
            files = {os.path.basename(ref): open(ref, 'rb').read(), os.path.basename(fpath): data} \
                if len(data) < 2500000 else {'params.txt': repr(desc).encode()}
            res.seen('flux_kinds', '%s/%s/%dspt/%dside' % (kind, enc, spt, sides))
            res.seen('sector_orders', desc['order'])
            cmds = []
            for s, drive in zip(surfs, drives):
                cmds.append(['cat', str(drive)])
                cmds.append(['free', str(drive)] if s.variant != 'opus' else ['free', '%dA' % drive])
                cmds.append(['show-titles', str(drive)])
                for v in s.volumes:
                    dv = '%d%s' % (drive, v.label or '')
                    cmds.append(['info', ':%s.#.*' % dv])
                    cmds.append(['space', dv])
                    ents = v.cat.all_entries()
                    for e in rng.sample(ents, min(2, len(ents))):
                        cmds.append(['type', '--binary', ':%s.%s.%s' % (dv, e.dir, e.name)])
                if geom_comparable:
                    cmds.append(['sector-map', str(drive)])
                    for _ in range(3):
                        cmds.append(['dump-sector', str(drive), str(rng.randrange(tracks)), str(rng.randrange(spt))])
                    cmds.append(['dump-sector', str(drive), str(tracks - 1), str(spt - 1)])
            trace_once = True
            for cmd in cmds:
                a = dfs(dfsbin, ref, cmd)
                b = dfs(dfsbin, fpath, cmd, trace=trace_once, timeout=60)
                res.execs += 2
                if trace_once:
                    ny = sum(1 for l in b.trace.splitlines() if l.startswith('Y '))
                    res.add('hook_Y_decoder_yields', ny)
                    if ny != tracks * spt * sides:
                        res.add('images_with_missing_decoder_yields', 1)
                    trace_once = False
                if screen(res, b, PROP, 'flux:' + cmd[0], files) or screen(res, a, PROP, 'ref:' + cmd[0], files):
                    continue
                res.events += 1
                res.sigs.append('%s|%s|%d|%s' % (kind, cmd[0], idx, ' '.join(cmd[1:])[:20]))
                if (a.rc, a.out) != (b.rc, b.out):
                    res.violation('flux-differs:%s:%s' % (kind, cmd[0]),
                                  '%s gives a different result on the %s image than on the sector dump' % (' '.join(cmd), kind),
                                  {'params': desc, 'dump': a.brief(), 'flux': b.brief(),
                                   'surfaces': [s.describe() for s in surfs]}, files, b.argv)
            # extract-files / extract-unused directory contents
            for s, drive in zip(surfs, drives):
                for v in s.volumes[:2]:
                    dv = '%d%s' % (drive, v.label or '')
                    outs = []
                    for tag, img in (('a', ref), ('b', fpath)):
                        d = os.path.join(tmp, 'x%s-%s-%s' % (tag, kind, dv))
                        os.mkdir(d)
                        r_ = dfs(dfsbin, img, ['extract-files', d], pre=['--drive', dv], timeout=60)
                        res.execs += 1
                        outs.append((r_.rc, listing(d), r_))
                    res.events += 1
                    if (outs[0][0], outs[0][1]) != (outs[1][0], outs[1][1]):
                        res.violation('flux-differs:%s:extract-files' % kind, 'extract-files differs on the flux image',
                                      {'params': desc, 'dump': outs[0][2].brief(), 'flux': outs[1][2].brief()},
                                      files, outs[1][2].argv)
                if geom_comparable and s.variant != 'opus' and s.volumes[0].cat.total == tracks * spt:
                    outs = []
                    for tag, img in (('a', ref), ('b', fpath)):
                        d = os.path.join(tmp, 'u%s-%s-%d' % (tag, kind, drive))
                        os.mkdir(d)
                        r_ = dfs(dfsbin, img, ['extract-unused', d], pre=['--drive', str(drive)], timeout=60)
                        res.execs += 1
                        outs.append((r_.rc, listing(d), r_))
                    res.events += 1
                    if (outs[0][0], outs[0][1]) != (outs[1][0], outs[1][1]):
                        res.violation('flux-differs:%s:extract-unused' % kind, 'extract-unused differs on the flux image',
                                      {'params': desc, 'dump': outs[0][2].brief(), 'flux': outs[1][2].brief()},
                                      files, outs[1][2].argv)
            res.sample = {'params': desc, 'disc': surfs[0].describe()}
    return res


def main(tier, seed, scale=1.0):
    BIN['san'] = build.ensure('san')
    n = int((60 if tier == 'quick' else 1500) * scale)
    specs = [(seed, i, tier) for i in range(n)]
    rule = ('one case = one generated disc (Acorn/Watford/Opus, FM 10 spt or MFM 16/18 spt, 35/40/80 tracks, one or two '
            'sides) recorded as HFE v1, HFE v3 (0-11 opcodes per track incl. SKIPBITS 0-7 anywhere) or HxC MFM with '
            'random legal gaps, sync lengths, sector order (sequential/shuffled/interleaved/skewed), index marks, '
            'per-track padding and LUT length convention; cat, free, show-titles, info, space, type --binary, '
            'sector-map, dump-sector, extract-files and extract-unused must agree with the sector dump; distinct = '
            '(flux kind, command, arguments, case)')
    return run_check(PROP, 'exploration', case, specs, tier, seed, rule,
                     assumptions=['for 16 sectors per track geometry-dependent renderings (sector-map, dump-sector, '
                                  'extract-unused) are not compared: a sector dump is never probed as 16 spt',
                                  'catalogue totals are chosen so that the probed track count of the dump equals the flux track count',
                                  'SKIPBITS semantics: the operand gives the number of leading bits of the following byte to skip'])
