"""C02 -- dfs reports catalogue metadata exactly as encoded on the disc.

Oracle: independent bit-field decoder (vf.discmodel / vf.refmodel) for info,
cat (information content only: header fields, multiset of entries,
sortedness), show-titles and .inf files (independent XMODEM CRC).
"""
import os
import re

from .. import build, discmodel as dm, refmodel as rm
from ..dfsutil import case_rng, make_image, dfs, screen, write_file, Image
from ..runner import run_check, CaseResult, Scratch

PROP = 'C02'
BIN = {}

# (len_hi, start_hi) pairs that a well-formed disc of <= 1023 sectors can hold
FEASIBLE = [(lh, sh) for lh in range(4) for sh in range(4) if (sh << 8) + max(lh << 8, 0) + (1 if lh else 0) <= 1023
            and not (lh + sh > 3)]
TARGETS = [(eh << 6) | (lh << 4) | (ldh << 2) | sh for (lh, sh) in FEASIBLE for eh in range(4) for ldh in range(4)]
LOW_WORDS = [0, 1, 0x7FFF, 0x8000, 0xFFFF]


def sweep_surface(rng, target, variant):
    """A well-formed 1023-sector catalogue whose first-listed file has the
    given mixed high-bits byte."""
    eh, lh, ldh, sh = (target >> 6) & 3, (target >> 4) & 3, (target >> 2) & 3, target & 3
    first = 4 if variant == 'watford' else 2
    total = 1023
    minsec = (lh << 8) + (1 if lh else 0)
    lo = max(first, sh << 8)
    hi = min((sh << 8) + 255, total - max(minsec, 1))
    start = rng.choice([lo, hi, rng.randint(lo, hi)])
    maxlen = min(((lh + 1) << 16) - 1, (total - start) * 256)
    minlen = lh << 16
    length = rng.choice([minlen, maxlen, rng.randint(minlen, maxlen)])
    low = lambda: rng.choice(LOW_WORDS + [rng.getrandbits(16)])
    prim = dm.Entry('$', 'PRIMARY', rng.random() < 0.5, (ldh << 16) | low(), (eh << 16) | low(), length, start,
                    rng.randbytes(length))
    # other small files in the free space below and above
    nsec = prim.nsectors
    others = []
    free_lo = list(range(first, start))
    free_hi = list(range(start + max(nsec, 0), total))
    if length == 0:
        free_hi = list(range(start, total))
    names = dm.unique_names(rng, rng.randint(0, 8))
    used = set()
    ents = []
    for (d, nm) in names:
        if (d.lower(), nm.lower()) == ('$', 'primary'):
            continue
        pool = free_lo if (free_lo and rng.random() < 0.5) else free_hi
        pool = [s for s in pool if s not in used]
        if not pool:
            continue
        s0 = rng.choice(pool)
        used.add(s0)
        ln = rng.choice([1, 255, 256, rng.randint(1, 256)])
        ents.append(dm.Entry(d, nm, rng.random() < 0.3, (rng.randrange(4) << 16) | low(),
                             (rng.randrange(4) << 16) | low(), ln, s0, rng.randbytes(ln)))
    allents = sorted(ents + [prim], key=lambda e: e.start)
    title = dm.rand_title(rng)
    if variant == 'watford':
        k = rng.randint(0, len(allents))
        cat = dm.Cat(title, rng.choice([0, 0x20]), rng.getrandbits(8), rng.randint(0, 3), total,
                     dm.catalogue_order(allents[:k]), dm.catalogue_order(allents[k:]))
    else:
        cat = dm.Cat(title, rng.choice([0, 0x20]), rng.getrandbits(8), rng.randint(0, 3), total,
                     dm.catalogue_order(allents))
    vol = dm.Volume(None, 0, 80 * 18, 0, cat)
    return dm.Surface(variant, 80, 18, [vol], rng.getrandbits(16), 0)


def fold_cmp_gt(a, b):
    """True when a sorts after b under BOTH case foldings (so an order that
    either folding produces is accepted)."""
    return a.lower() > b.lower() and a.upper() > b.upper()


def check_cat(res, out, s, v, drive, cur_dir, ui, files, argv):
    ents = v.cat.all_entries()
    p = rm.parse_cat(out)
    hdr = p['header'].decode('latin1')
    detail = {'surface': s.describe(), 'ui': ui, 'cur_dir': cur_dir, 'stdout': out[:1500]}
    bad = []
    title = v.cat.title_str()
    first_line = hdr.split('\n')[0]
    if title not in first_line:
        bad.append('title %r not in first line %r' % (title, first_line))
    m = re.search(r'\(([0-9A-Fa-f]{2})\)', hdr)
    if not m or int(m.group(1), 16) != v.cat.cycle:
        bad.append('cycle %02X not shown (%r)' % (v.cat.cycle, m.group(0) if m else None))
    m = re.search(r'Option (\d) \((\w+)\)', hdr)
    if not m or int(m.group(1)) != v.cat.boot or m.group(2) != rm.BOOT_WORDS[v.cat.boot]:
        bad.append('boot option %d not shown (%r)' % (v.cat.boot, m.group(0) if m else None))
    double = s.density == 'MFM'
    # look for the density word outside the title (a title may itself contain "FM")
    hdr_nt = hdr.replace(title, ' ', 1) if title else hdr
    has_double = ('MFM' in hdr_nt) or ('Double density' in hdr_nt)
    has_single = bool(re.search(r'(^|[^M])FM', hdr_nt)) or ('Single density' in hdr_nt)
    if double != has_double or (not double) != has_single:
        bad.append('density shown wrongly for %s' % s.density)
    # (the drive shown in the header is not part of the statement and is not judged)
    got = sorted((d or '', n, l) for (d, n, l) in p['entries'])
    exp = sorted(('' if e.dir == cur_dir else e.dir, e.name, e.locked) for e in ents)
    if got != exp:
        missing = [x for x in exp if x not in got][:4]
        extra = [x for x in got if x not in exp][:4]
        bad.append('entry multiset differs: missing %r extra %r (%d listed, %d expected)'
                   % (missing, extra, len(got), len(exp)))
    else:
        seq = p['entries']
        for a, b in zip(seq, seq[1:]):
            ka = (0 if a[0] is None else 1)
            kb = (0 if b[0] is None else 1)
            wrong = False
            if ka > kb:
                wrong = True
            elif ka == kb:
                da, db = (a[0] or ''), (b[0] or '')
                if fold_cmp_gt(da, db):
                    wrong = True
                elif da.lower() == db.lower() and da == db and fold_cmp_gt(a[1], b[1]):
                    wrong = True
            if wrong:
                bad.append('entries out of order: %r before %r' % (a, b))
                break
    if bad:
        detail['problems'] = bad
        res.violation('cat-' + re.sub(r'[^a-z]+', '-', bad[0].split(' ')[0].lower()),
                      'cat output disagrees with the catalogue: ' + bad[0], detail, files, argv)


def case(spec):
    seed, idx, tier = spec
    rng = case_rng(seed, PROP, idx)
    res = CaseResult()
    dfsbin = BIN['san']['dfs']
    with Scratch('c02') as tmp:
        if idx % 2 == 0:
            target = TARGETS[(idx // 2) % len(TARGETS)]
            s = sweep_surface(rng, target, rng.choice(['acorn', 'watford']))
            path = os.path.join(tmp, 'sweep.sdd')
            write_file(path, s.image())
            img = Image(path, [s], [0], 'single')
        else:
            img = make_image(rng, tmp, maxlen_sectors=40)
        sz = os.path.getsize(img.path)
        files = {os.path.basename(img.path): open(img.path, 'rb').read()} if sz < 3000000 else {}
        for s, drive in zip(img.surfaces, img.drives):
            res.seen('variants', s.variant)
            # ---- show-titles
            r_ = dfs(dfsbin, img.path, ['show-titles', str(drive)])
            res.execs += 1
            if not screen(res, r_, PROP, 'show-titles', files):
                exp = b''.join(('%d%s: %s\n' % (drive, v.label or '', v.cat.title_str())).encode('latin1')
                               for v in s.volumes)
                res.events += 1
                if r_.rc != 0 or r_.out != exp:
                    res.violation('show-titles-mismatch', 'show-titles differs from the catalogue titles',
                                  {'expected': exp, 'run': r_.brief(), 'surface': s.describe()}, files, r_.argv)
            for v in s.volumes:
                ents = v.cat.all_entries()
                dv = '%d%s' % (drive, v.label or '')
                if v.label == 'A' and rng.random() < 0.4:
                    dv = str(drive)        # on an Opus disc the drive number alone means volume A
                    res.add('opus_volume_A_by_bare_drive_number', 1)
                for e in ents:
                    res.seen('mixed_byte_values', e.mixed())
                    res.seen('low_words', (e.load & 0xFFFF) in LOW_WORDS and (e.load & 0xFFFF))
                # ---- info: every entry, catalogue order
                wild = ':%s.#.*' % dv
                pre = []
                if rng.random() < 0.3:
                    pre = ['--dir', rng.choice('$AZq')]
                if rng.random() < 0.4:
                    # the volume comes from --drive, with a --ui option before or after it
                    wild = '#.*'
                    uo = ['--ui', rng.choice(['acorn', 'watford', 'opus'])] if rng.random() < 0.7 else []
                    pre = pre + (['--drive', dv] + uo if rng.random() < 0.5 else uo + ['--drive', dv])
                r_ = dfs(dfsbin, img.path, ['info', wild], pre=pre)
                res.execs += 1
                if not screen(res, r_, PROP, 'info', files):
                    lines = r_.out.split(b'\n')
                    if lines and lines[-1] == b'':
                        lines.pop()
                    got = [rm.parse_info_line(l) for l in lines]
                    exp = [rm.expected_info(e) for e in ents]
                    res.events += len(exp)
                    if r_.rc != 0 or got != exp:
                        k = next((i for i in range(min(len(got), len(exp))) if got[i] != exp[i]), min(len(got), len(exp)))
                        fld = 'count'
                        if k < len(got) and k < len(exp) and got[k]:
                            fld = ','.join(f for f in exp[k] if got[k].get(f) != exp[k][f])
                        elif k < len(got) and got[k] is None:
                            fld = 'unparseable'
                        res.violation('info-mismatch:' + fld, 'info line %d differs in %s' % (k, fld),
                                      {'line': lines[k] if k < len(lines) else None,
                                       'expected': exp[k] if k < len(exp) else None,
                                       'run': r_.brief(), 'surface': s.describe()}, files, r_.argv)
                # ---- cat in each ui style
                dirs = sorted(set(e.dir for e in ents))
                cands = ['$'] + dirs + ['Q']
                cands = [c for c in cands if not any(d != c and d.lower() == c.lower() for d in dirs)] or ['$']
                for ui in (None, 'acorn', 'watford', 'opus'):
                    if tier == 'quick' and ui is not None and rng.random() < 0.4:
                        continue
                    cur_dir = rng.choice(cands)
                    pre = ['--dir', cur_dir] if (cur_dir != '$' or rng.random() < 0.3) else []
                    catargs = ['cat', dv]
                    how = rng.randrange(3)
                    if how == 1:
                        pre += ['--drive', dv]          # the current volume, then (maybe) the ui style
                        catargs = ['cat']
                    if ui:
                        pre += ['--ui', ui]
                    if how == 2:
                        pre += ['--drive', dv]          # ui style first, then the current volume
                        catargs = ['cat']
                    r_ = dfs(dfsbin, img.path, catargs, pre=pre)
                    res.execs += 1
                    if screen(res, r_, PROP, 'cat', files):
                        continue
                    res.events += 1
                    if r_.rc != 0:
                        res.violation('cat-failed', 'cat failed on a well-formed disc',
                                      {'run': r_.brief(), 'surface': s.describe()}, files, r_.argv)
                        continue
                    check_cat(res, r_.out, s, v, drive, cur_dir, ui, files, r_.argv)
                    res.seen('ui_styles', ui or 'default')
                # ---- .inf files
                dest = os.path.join(tmp, 'out-%s' % dv)
                os.mkdir(dest)
                r_ = dfs(dfsbin, img.path, ['extract-files', dest], pre=['--drive', dv, '--dir', rng.choice('$.A')])
                res.execs += 1
                if not screen(res, r_, PROP, 'extract-files', files):
                    if r_.rc != 0:
                        res.violation('extract-files-failed', 'extract-files failed on a well-formed disc',
                                      {'run': r_.brief(), 'surface': s.describe()}, files, r_.argv)
                    else:
                        byname = {e.full: e for e in ents}
                        infs = [f for f in os.listdir(dest) if f.endswith('.inf')]
                        seen = set()
                        for inf in infs:
                            raw = open(os.path.join(dest, inf), 'rb').read()
                            d = rm.parse_inf(raw)
                            e = byname.get(d['name']) if d else None
                            res.events += 1
                            if e is None:
                                res.violation('inf-unparseable', '.inf file %r unparseable / unknown name' % inf,
                                              {'content': raw[:200], 'surface': s.describe()}, files, r_.argv)
                                continue
                            seen.add(e.full)
                            exp = {'name': e.full, 'load': rm.sign_extend(e.load), 'exec': rm.sign_extend(e.exec_),
                                   'length': e.length, 'locked': e.locked, 'crc': rm.xmodem_crc(e.body)}
                            if d != exp:
                                fld = ','.join(k for k in exp if d.get(k) != exp[k])
                                res.violation('inf-mismatch:' + fld, '.inf of %s differs in %s' % (e.full, fld),
                                              {'content': raw, 'expected': exp, 'surface': s.describe()},
                                              files, r_.argv)
                        if seen != set(byname):
                            res.violation('inf-missing', 'no .inf for %r' % sorted(set(byname) - seen)[:4],
                                          {'surface': s.describe()}, files, r_.argv)
                res.sigs.append('%s|%d|%s|%d' % (s.variant, len(ents), v.label, idx))
        res.sample = {'image': os.path.basename(img.path), 'surface': img.surfaces[0].describe()}
    return res


def post(agg, sigs):
    out = []
    seen = agg.cov.get('mixed_byte_values', set())
    missing = [t for t in TARGETS if t not in seen]
    agg.cov['mixed_byte_values_feasible'] = len(TARGETS)
    agg.cov['mixed_byte_values_missing'] = len(missing)
    return out


def main(tier, seed, scale=1.0):
    BIN['san'] = build.ensure('san')
    n = int((2 * len(TARGETS) if tier == 'quick' else 16000) * scale)
    specs = [(seed, i, tier) for i in range(n)]
    rule = ('one case = one generated disc; even cases sweep the mixed high-bits byte over the %d values a '
            'well-formed disc of <= 1023 sectors can hold (len_hi + start_hi <= 3) with boundary low words, odd '
            'cases are random Acorn/Watford/Opus discs; per volume: info #.* (every field of every line), cat in '
            'up to 4 ui styles (header fields, entry multiset, sortedness), show-titles, every .inf; distinct = '
            '(variant, entry count, volume, case)') % len(TARGETS)
    return run_check(PROP, 'exploration', case, specs, tier, seed, rule, post=post,
                     assumptions=['column layout of cat and info is not judged, only fields',
                                  'names drawn from 0x21-0x7E without . : # * " ; the name L is never used',
                                  'ordering accepted under either case folding'])
