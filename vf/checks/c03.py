"""C03 -- bbcbasic_to_text lists every well-formed program as doc/bbcbasic.5
defines.

Oracle: vf.basicref (written from the man pages; token rows parsed from
doc/bbcbasic.5).  Workload: vf.basicgen.
"""
import os
import random

from .. import build, basicgen as bg, basicref as br
from ..execu import run, clean_failure_key
from ..runner import run_check, CaseResult, Scratch

PROP = 'C03'
BIN = {}


def first_diff(a, b):
    la, lb = a.split(b'\n'), b.split(b'\n')
    for i, (x, y) in enumerate(zip(la, lb)):
        if x != y:
            return {'line_index': i, 'got': x[:160], 'expected': y[:160]}
    return {'line_index': min(len(la), len(lb)), 'got_lines': len(la), 'expected_lines': len(lb)}


def classify(got, exp):
    """what kind of difference: indentation only, line number, tokens"""
    la, lb = got.split(b'\n'), exp.split(b'\n')
    if len(la) != len(lb):
        return 'line-count'
    for x, y in zip(la, lb):
        if x != y:
            if x[:5] != y[:5]:
                return 'line-number'
            if x.replace(b' ', b'') == y.replace(b' ', b''):
                return 'spacing-or-indent'
            return 'tokens'
    return 'other'


def case(spec):
    seed, idx, tier, ntotal = spec
    r = random.Random('%s/C03/%d' % (seed, idx))
    res = CaseResult()
    dialect = bg.DIALECTS[idx % len(bg.DIALECTS)]
    fam = br.FAMILY[dialect]
    vb = bg.valid_bytes(fam)
    # token sweep: this case is responsible for a slice of the family's tokens
    per = max(1, (len(vb) * len(bg.DIALECTS)) // max(1, ntotal) + 1)
    k = (idx // len(bg.DIALECTS)) * per
    sweep = [vb[(k + j) % len(vb)] for j in range(per)]
    sweep = [b for b in sweep if b not in bg.LOOP]
    # GOTO target sweep
    stride = 16 if tier == 'quick' else 1
    span = 65536 // stride
    pert = span // max(1, ntotal) + 1
    targets = [((idx * pert + j) * stride + (seed % stride)) % 65536 for j in range(pert)]
    tl = list(targets)
    stray = idx % 7 == 3
    prog, lines = bg.gen_prog(r, dialect, maxlines=max(14, len(sweep) + len(tl) + 2), targets=tl, sweep_tokens=sweep,
                              long_lines=True, stray_closers=stray)
    binp = BIN['san']['basic'] if r.random() >= 0.03 else BIN['rel']['basic']
    with Scratch('c03') as tmp:
        path = os.path.join(tmp, 'p.bbc')
        with open(path, 'wb') as f:
            f.write(prog)
        listos = list(range(8)) if tier == 'thorough' else r.sample(range(8), 3)
        for listo in listos:
            try:
                inf = {}
                exp = br.list_program(dialect, prog, listo, info=inf)
                alts = [exp]
                if inf['state'].get('went_negative'):
                    # more closers than open loops: the documents do not say whether the depth is clamped at
                    # zero, so either reading is accepted
                    alts.append(br.list_program(dialect, prog, listo, clamp=True))
                    res.add('programs_with_negative_depth', 1)
            except br.Invalid as e:
                res.inconclusive.append('generator produced a program the reference rejects: %s' % e)
                continue
            for how in ('file', 'stdin'):
                lo = ['--listo=%d' % listo] if r.random() < 0.5 else ['-l', str(listo)]
                if listo == 7 and r.random() < 0.3:
                    lo = []
                dopt = ['--dialect=' + dialect] if r.random() < 0.5 else ['-d', dialect]
                if dialect == '6502' and r.random() < 0.3:
                    dopt = []
                argv = [binp] + lo + dopt + ([path] if how == 'file' else ['-'])
                r_ = run(argv, stdin=prog if how == 'stdin' else b'', max_output=8 << 20)
                res.execs += 1
                res.events += len(lines)
                k_ = clean_failure_key(r_, (0, 1))
                files = {'p.bbc': prog}
                if k_:
                    res.violation('%s' % k_, 'unclean termination on a well-formed program', r_.brief(), files, r_.argv)
                    continue
                if r_.rc != 0 or r_.out not in alts:
                    d = first_diff(r_.out, exp)
                    d.update({'dialect': dialect, 'listo': listo, 'how': how, 'run': r_.brief()})
                    kind = 'rejected' if r_.rc != 0 else classify(r_.out, exp)
                    res.violation('listing-%s:%s' % (kind, how if kind == 'rejected' else fam),
                                  'listing differs from doc/bbcbasic.5 (%s, LISTO %d, %s): %s' % (dialect, listo, how, kind),
                                  d, files, r_.argv)
                res.sigs.append('%s|%d|%s|%d' % (dialect, listo, how, idx))
        for (_, l) in lines:
            for b in set(l):
                res.seen('bytes_used_%s' % fam, b)
        res.add('goto_targets', len(targets) - len(tl))
        res.add('program_lines', len(lines))
        res.seen('dialects', dialect)
        if idx < 40:
            res.sample = {'dialect': dialect, 'program_hex': prog[:120].hex(), 'lines': len(lines)}
    return res


def main(tier, seed, scale=1.0):
    BIN['san'] = build.ensure('san')
    BIN['rel'] = build.ensure('rel')
    n = int((2000 if tier == 'quick' else 30000) * scale)
    specs = [(seed, i, tier, n) for i in range(n)]
    rule = ('one case = one generated well-formed program for one of the 10 dialect names (token sweep: every byte '
            'valid for the dialect is used outside strings; 0x8D targets swept with stride %s; strings hold bytes '
            '0x01-0xFF incl. loop keywords and extension introducers; nested/multiple FOR/REPEAT per line; line '
            'numbers 0 and the maximum; lines up to 255 bytes) listed with %s LISTO values from a file and from '
            'standard input; distinct = (dialect, LISTO, file/stdin, program)'
            % ('16 in quick' if tier == 'quick' else '1 (all 65536)', '3 random' if tier == 'quick' else 'all 8'))
    return run_check(PROP, 'exploration', case, specs, tier, seed, rule,
                     assumptions=['programs whose loop depth goes negative are accepted under either reading (depth clamped at zero or not); no opener before a closer of the same kind on one line',
                                  '0x7F outside ARM/Mac and 0xFB for Mac are not generated (documents disagree)',
                                  'no bytes after the end-of-program marker'])
