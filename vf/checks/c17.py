"""C17 -- no command returns bytes from outside the volume or surface being read.

Fault enumeration at the boundaries: catalogue entries that end boundary-2 ..
boundary+2 sectors around the end of every Opus volume, of each side of a
two-sided image, of a one-sided image and of an MMB slot.  Oracles: sector
contents are unique, so any 256-byte block of output is attributed to its
sector; V/S hook records must never be forwarded past the limit.
"""
import os

from .. import build, discmodel as dm
from ..dfsutil import case_rng, dfs, screen, write_file
from ..runner import run_check, CaseResult, Scratch
from .c04 import parse_hexdump

PROP = 'C17'
BIN = {}


def edge_entry(rng, name, limit, overshoot, rem):
    """An entry whose last sector is limit-1+overshoot (overshoot <= 0: fits).
    rem: bytes used in the last sector (1..256)."""
    nsec = rng.choice([1, 2, 3, 5])
    start = limit + overshoot - nsec
    if start < 0:
        nsec = limit + overshoot
        start = 0
    length = (nsec - 1) * 256 + rem
    return dm.Entry('$', name, False, 0x1900, 0x8023, length, start, None)


def fill_body(e, rng, avail_sectors):
    """truth body: random bytes for the part that lies inside the volume"""
    inside = max(0, min(e.length, avail_sectors * 256))
    e.body = rng.randbytes(inside)
    return e


class Outside(object):
    """contents of every container sector that is not inside the addressed
    region; find() attributes a (possibly partial, >= 8 bytes) block"""

    def __init__(self, container_bytes, inside_ranges):
        self.full = {}
        self.by_head = {}
        n = len(container_bytes) // 256
        inside = set()
        for a, b in inside_ranges:
            inside.update(range(a, b))
        for k in range(n):
            if k in inside:
                continue
            blk = container_bytes[k * 256:(k + 1) * 256]
            if blk.count(blk[0]) == 256:
                continue            # constant blocks are not attributable
            self.full[blk] = k
            self.by_head.setdefault(blk[:8], []).append((blk, k))

    def get(self, piece):
        piece = bytes(piece)
        if len(piece) == 256:
            return self.full.get(piece)
        if len(piece) < 8:
            return None
        for blk, k in self.by_head.get(piece[:8], ()):
            if blk.startswith(piece):
                return k
        return None


def outside_blocks(container_bytes, inside_ranges):
    return Outside(container_bytes, inside_ranges)


def judge(res, r_, what, e, fits, legit, outside, files, ctx):
    """r_: run of a body command on entry e."""
    if screen(res, r_, PROP, what, files):
        return
    res.events += 1
    data = r_.out
    if what == 'dump' and r_.rc == 0:
        data = parse_hexdump(r_.out) or b''
    leaked = None
    for off in range(0, len(data), 256):
        k = outside.get(bytes(data[off:off + 256]))
        if k is not None:
            leaked = (off, k)
            break
    if leaked:
        res.violation('outside-bytes:' + ctx, '%s delivered the contents of container sector %d, which lies outside '
                      'the volume/surface being read (exit %d)' % (what, leaked[1], r_.rc),
                      {'entry': e.brief(), 'run': r_.brief(), 'context': ctx}, files, r_.argv)
        return
    if fits:
        ok = r_.rc == 0 and (data == legit if what != 'dump' else data[:len(legit)] == legit)
        if not ok:
            res.violation('fitting-entry-failed:' + ctx, '%s of an entry that ends exactly inside the boundary failed '
                          'or returned wrong data' % what, {'entry': e.brief(), 'run': r_.brief()}, files, r_.argv)
    else:
        if r_.rc == 0 or not r_.err.strip():
            res.violation('overrun-not-reported:' + ctx, '%s of an entry reaching beyond the boundary exited %d / '
                          'was silent' % (what, r_.rc), {'entry': e.brief(), 'run': r_.brief()}, files, r_.argv)


def check_hooks(res, r_, files, ctx):
    for line in r_.trace.splitlines():
        f = line.split()
        if f[0] == 'V' and f[-1] == 'forwarded':
            res.events += 1
            res.add('hook_V_forwarded', 1)
            if int(f[3]) >= int(f[2]):
                res.violation('hook-volume-limit:' + ctx, 'Volume read of sector %s forwarded although the volume has '
                              '%s sectors' % (f[3], f[2]), {'trace': line, 'run': r_.brief()}, files, r_.argv)
                return
        elif f[0] == 'V' and f[-1] == 'request' and int(f[3]) >= int(f[2]):
            res.add('hook_V_requests_beyond_limit', 1)
            res.seen('contexts_with_refused_volume_reads', ctx)
        elif f[0] == 'S' and f[-1] == 'REFUSED':
            res.add('hook_S_refused', 1)
        elif f[0] == 'S' and f[-1] != 'REFUSED':
            res.events += 1
            res.add('hook_S_forwarded', 1)
            if int(f[5]) >= int(f[4]):
                res.violation('hook-surface-limit:' + ctx, 'surface read of sector %s forwarded although the surface '
                              'has %s sectors' % (f[5], f[4]), {'trace': line, 'run': r_.brief()}, files, r_.argv)
                return


def run_entry(res, rng, dfsbin, path, pre, spec_name, e, fits, legit, outside, files, ctx, tmp, drive_vol):
    for what in ('type', 'dump', 'extract'):
        if what == 'type':
            r_ = dfs(dfsbin, path, ['type', '--binary', spec_name], pre=pre, trace=True)
            res.execs += 1
            judge(res, r_, 'type', e, fits, legit, outside, files, ctx)
            check_hooks(res, r_, files, ctx)
        elif what == 'dump':
            r_ = dfs(dfsbin, path, ['dump', spec_name], pre=pre, trace=True)
            res.execs += 1
            judge(res, r_, 'dump', e, fits, legit, outside, files, ctx)
        else:
            dest = os.path.join(tmp, 'x-%d' % res.execs)
            os.mkdir(dest)
            r_ = dfs(dfsbin, path, ['extract-files', dest], pre=pre + ['--drive', drive_vol], trace=True)
            res.execs += 1
            if screen(res, r_, PROP, 'extract-files', files):
                continue
            res.events += 1
            leaked = None
            for f in os.listdir(dest):
                data = open(os.path.join(dest, f), 'rb').read()
                for off in range(0, len(data), 256):
                    k = outside.get(data[off:off + 256])
                    if k is not None:
                        leaked = (f, k)
            if leaked:
                res.violation('outside-bytes:' + ctx, 'extract-files wrote the contents of container sector %d (outside '
                              'the volume/surface) into %s' % (leaked[1], leaked[0]),
                              {'entry': e.brief(), 'run': r_.brief()}, files, r_.argv)
            elif not fits and (r_.rc == 0 or not r_.err.strip()):
                res.violation('overrun-not-reported:' + ctx, 'extract-files with an entry reaching beyond the boundary '
                              'exited %d / was silent' % r_.rc, {'entry': e.brief(), 'run': r_.brief()}, files, r_.argv)
            elif fits and r_.rc != 0:
                res.violation('fitting-entry-failed:' + ctx, 'extract-files failed although every entry fits',
                              {'entry': e.brief(), 'run': r_.brief()}, files, r_.argv)
            check_hooks(res, r_, files, ctx)


def case(spec):
    seed, kind, idx, tier = spec
    rng = case_rng(seed, PROP, (kind, idx))
    res = CaseResult()
    dfsbin = BIN['san']['dfs']
    overshoot = [-2, -1, 0, 1, 2, 3][idx % 6]
    rem = rng.choice([1, 255, 256, rng.randint(1, 256)])
    fits = overshoot <= 0
    with Scratch('c17') as tmp:
        if kind == 'opus':
            tracks = rng.choice([35, 40, 80])
            nv = rng.randint(2, 8)
            while True:
                starts = [1] + sorted(rng.sample(range(2, tracks), nv - 1))
                ends = starts[1:] + [tracks]
                if all((b - a) * 18 <= 1023 for a, b in zip(starts, ends)):
                    break
                nv = min(8, nv + 1)
            if idx % 3 == 2:
                # the letters need not follow the order of the volumes on the disc: the limit of a volume is the
                # start of whichever volume comes next on the disc (or the end of the disc)
                ext_ = list(zip(starts, ends))
                rng.shuffle(ext_)
                starts, ends = [a for a, _ in ext_], [b for _, b in ext_]
                res.add('opus_tables_not_in_disc_order', 1)
            tv = (idx // 6) % nv        # target volume (every volume A..H gets its turn)
            vols = []
            target = None
            for i in range(nv):
                vlen = (ends[i] - starts[i]) * 18
                ents = []
                if i == tv:
                    e = edge_entry(rng, 'EDGE', vlen, overshoot, rem)
                    fill_body(e, rng, vlen - e.start)
                    target = e
                    ents.append(e)
                    if e.start > 3:
                        ents.append(dm.Entry('$', 'LOW', False, 0, 0, 300, 0, rng.randbytes(300)))
                else:
                    # next volume starts with a file so that its first sectors are recognisable data
                    ents.append(dm.Entry('$', 'NEXT', False, 0, 0, 700, 0, rng.randbytes(700)))
                cat = dm.Cat(b'V' + bytes([65 + i]), 0, 3, 0, vlen, dm.catalogue_order(ents))
                vols.append(dm.Volume('ABCDEFGH'[i], starts[i] * 18, vlen, 2 * i, cat))
            s = dm.Surface('opus', tracks, 18, vols, rng.getrandbits(16), 0, 'MFM')
            raw = bytearray(s.image())
            v = vols[tv]
            # Surface.image() copies only len(body) bytes: the inside part
            path = os.path.join(tmp, 'o.sdd')
            write_file(path, bytes(raw))
            files = {'o.sdd': bytes(raw)}
            inside = [(v.origin, v.origin + v.length)]
            outside = outside_blocks(bytes(raw), inside)
            ctx = 'opus-vol'
            label = v.label
            res.seen('opus_volumes_targeted', label)
            legit = target.body
            run_entry(res, rng, dfsbin, path, [], ':0%s.$.EDGE' % label, target, fits, legit, outside, files, ctx, tmp,
                      '0' + label)
            res.sigs.append('opus|%d|%s|%d|%d' % (nv, label, overshoot, rem))
            res.sample = {'kind': kind, 'volume': label, 'overshoot': overshoot, 'entry': target.brief()}
        elif kind == 'hdfs':
            # a catalogue whose HDFS flag makes the catalogue's own sector count (0x3FF, bit 9 from the top bit of the
            # title) larger than the count the prober uses (0x1FF): commands that walk the whole file system
            # (extract-unused) then ask the surface for sectors beyond its end
            ctxk = ['mmb-slot', 'ssd-two-sided', 'dsd-side'][idx % 3]
            tracks, spt = 80, 10
            nsec = 800
            surfs = []
            for sd in range(2):
                ents = [dm.Entry('$', 'LOW', False, 0, 0, 300, 2, rng.randbytes(300))]
                cat = dm.Cat(b'HD%d' % sd, 0, 1, 0, 800, dm.catalogue_order(ents))
                surfs.append(dm.Surface('acorn', tracks, spt, [dm.Volume(None, 0, nsec, 0, cat)], rng.getrandbits(16), sd))
            imgs = [bytearray(sf.image()) for sf in surfs]
            a = imgs[0]
            a[0] |= 0x80                       # HDFS: bit 9 of the total from the top bit of the first title byte
            a[256 + 6] = (a[256 + 6] & 0xF0) | 0x08 | 0x01
            a[256 + 7] = 0xFF
            if ctxk == 'mmb-slot':
                k = rng.choice([0, 3, 254])
                path = os.path.join(tmp, 'h.mmb')
                dm.mmb_file(path, {k: (0x0F, bytes(a)), k + 1: (0x0F, bytes(imgs[1]))})
                raw = open(path, 'rb').read()
                inside = [(32 + 800 * k, 32 + 800 * k + 800)]
                drive, pre = k, ['--drive-first']
                files = {'slots.txt': b'HDFS-flagged catalogue in slot %d' % k}
            elif ctxk == 'ssd-two-sided':
                raw = bytes(a) + bytes(imgs[1])
                path = os.path.join(tmp, 'h.ssd')
                write_file(path, raw)
                inside = [(0, 800)]
                drive, pre = 0, []
                files = {'h.ssd': raw}
            else:
                tb = spt * 256
                raw = b''.join(bytes(a[t * tb:(t + 1) * tb]) + bytes(imgs[1][t * tb:(t + 1) * tb]) for t in range(tracks))
                path = os.path.join(tmp, 'h.dsd')
                write_file(path, raw)
                inside = [((2 * t) * spt, (2 * t) * spt + spt) for t in range(tracks)]
                drive, pre = 0, []
                files = {'h.dsd': raw}
            outside = outside_blocks(raw, inside)
            dest = os.path.join(tmp, 'hx')
            os.mkdir(dest)
            for cmd in (['extract-unused', dest], ['sector-map', str(drive)], ['free', str(drive)], ['space', str(drive)]):
                r_ = dfs(dfsbin, path, cmd, pre=pre + (['--drive', str(drive)] if cmd[0] == 'extract-unused' else []), trace=True)
                res.execs += 1
                if screen(res, r_, PROP, cmd[0], files):
                    continue
                res.events += 1
                check_hooks(res, r_, files, 'hdfs-' + ctxk)
            leaked = None
            for f in os.listdir(dest):
                data = open(os.path.join(dest, f), 'rb').read()
                for off in range(0, len(data), 256):
                    kk = outside.get(data[off:off + 256])
                    if kk is not None:
                        leaked = (f, kk)
                        break
            if leaked:
                res.violation('outside-bytes:hdfs-' + ctxk, 'extract-unused wrote the contents of container sector %d '
                              '(outside the surface) into %s' % (leaked[1], leaked[0]), {'context': ctxk}, files,
                              [dfsbin] + pre + ['--file', path, 'extract-unused', dest])
            res.sigs.append('hdfs|%s|%d' % (ctxk, idx))
            res.sample = {'kind': kind, 'context': ctxk}
        elif kind == 'flux':
            from .. import flux as fx
            enc = rng.choice(['fm', 'mfm'])
            spt = 10 if enc == 'fm' else rng.choice([16, 18])
            tracks = rng.choice([2, 3, 5])
            nsec = tracks * spt
            side = rng.randrange(2)
            fk = rng.choice(['hfe1', 'hfe3'] + (['mfm'] if enc == 'mfm' else []))
            surfs = []
            target = None
            for sd in range(2):
                ents = []
                if sd == side:
                    e = edge_entry(rng, 'EDGE', nsec, overshoot, rem)
                    fill_body(e, rng, nsec - e.start)
                    target = e
                    ents.append(e)
                if not (sd == side and target.start <= 4):
                    ents.append(dm.Entry('$', 'LOW', False, 0, 0, 300, 2, rng.randbytes(300)))
                cat = dm.Cat(b'X%d' % sd, 0, 1, 0, nsec, dm.catalogue_order(ents))
                surfs.append(dm.Surface('acorn', tracks, spt, [dm.Volume(None, 0, nsec, 0, cat)], rng.getrandbits(16), sd))
            images = [sf.image() for sf in surfs]
            params = fx.FluxParams(rng, enc, spt)
            per = [fx.encode_surface(rng, images[sd], tracks, spt, enc, sd, params) for sd in range(2)]
            if fk == 'mfm':
                data = fx.hxcmfm_file({(t, sd): fx.pack_msb_first(per[sd][t].c) for sd in range(2) for t in range(tracks)}, tracks, 2)
                path = os.path.join(tmp, 'x.mfm')
            else:
                packed = []
                for sd in range(2):
                    lst = []
                    for tr in per[sd]:
                        raw_ = fx.pack_lsb_first(fx.fm_to_hfe_cells(tr.c) if enc == 'fm' else tr.c)
                        if fk == 'hfe3':
                            raw_, _ = fx.insert_v3_opcodes(rng, raw_, n=rng.randrange(0, 4))
                        lst.append(raw_)
                    packed.append(lst)
                data = fx.hfe_file(packed[0], packed[1], 2 if enc == 'fm' else 0, 1 if fk == 'hfe1' else 3)
                path = os.path.join(tmp, 'x.hfe')
            write_file(path, data)
            files = {os.path.basename(path): data}
            # everything on the other side is "outside"
            both = images[side] + images[1 - side]
            outside = outside_blocks(both, [(0, nsec)])
            drive = [0, 2][side]
            run_entry(res, rng, dfsbin, path, [], ':%d.$.EDGE' % drive, target, fits, target.body, outside, files,
                      'flux-side', tmp, str(drive))
            res.seen('flux_kinds', fk + '/' + enc)
            res.sigs.append('flux|%s|%s|%d|%d|%d|%d' % (fk, enc, tracks, side, overshoot, rem))
            res.sample = {'kind': kind, 'flux': fk, 'overshoot': overshoot, 'entry': target.brief(), 'drive': drive}
        elif kind in ('inter', 'single', 'mmb'):
            spt = 10 if kind == 'mmb' else rng.choice([10, 18])
            if kind == 'mmb':
                tracks = 80
            else:
                tracks = rng.choice([40, 80]) if spt == 10 else rng.choice([35, 40])
            nsec = tracks * spt
            total = min(nsec, 1023)
            side = rng.randrange(2) if kind == 'inter' else 0
            surfs = []
            target = None
            nside = 2 if kind == 'inter' else (2 if kind == 'mmb' else 1)
            for sd in range(nside):
                ents = []
                if sd == side:
                    e = edge_entry(rng, 'EDGE', nsec, overshoot, rem)
                    if e.start + 0 > 1023:
                        e.start = 1023
                    fill_body(e, rng, nsec - e.start)
                    target = e
                    ents.append(e)
                ents.append(dm.Entry('$', 'LOW', False, 0, 0, 600, 2, rng.randbytes(600)))
                cat = dm.Cat(b'S%d' % sd, 0, 1, 0, total, dm.catalogue_order(ents))
                surfs.append(dm.Surface('acorn', tracks, spt, [dm.Volume(None, 0, nsec, 0, cat)],
                                        rng.getrandbits(16), sd))
            if target.start + target.nsectors > 1023 + 1 and False:
                pass
            if kind == 'inter':
                raw = dm.dsd_image(surfs[0], surfs[1])
                path = os.path.join(tmp, 'i.%s' % dm.ext_for(surfs[0], True))
                write_file(path, raw)
                drive = [0, 2][side]
                inside_secs = [((2 * t + side) * spt, (2 * t + side) * spt + spt) for t in range(tracks)]
                pre = []
                files = {os.path.basename(path): raw}
            elif kind == 'single':
                raw = surfs[0].image() + (fingerprint_tail(rng, 8) if rng.random() < 0.5 else b'')
                path = os.path.join(tmp, 's.%s' % dm.ext_for(surfs[0]))
                write_file(path, raw)
                drive = 0
                inside_secs = [(0, nsec)]
                pre = []
                files = {os.path.basename(path): raw}
            else:
                k = rng.choice([0, 1, 254, 255, 509])
                path = os.path.join(tmp, 'm.mmb')
                dm.mmb_file(path, {k: (0x0F, surfs[0].image()), k + 1: (0x00, surfs[1].image())})
                raw = open(path, 'rb').read()
                drive = k
                inside_secs = [(32 + 800 * k, 32 + 800 * k + 800)]
                pre = ['--drive-first']
                files = {'slots.txt': ('edge entry in slot %d, next slot %d present' % (k, k + 1)).encode()}
                res.seen('mmb_slots', k)
            outside = outside_blocks(raw, inside_secs)
            ctx = {'inter': 'dsd-side', 'single': 'ssd-end', 'mmb': 'mmb-slot'}[kind]
            if target.start + target.nsectors - 1 <= 0x3FF + 64:
                run_entry(res, rng, dfsbin, path, pre, ':%d.$.EDGE' % drive, target, fits, target.body, outside, files,
                          ctx, tmp, str(drive))
            res.sigs.append('%s|%d|%d|%d|%d|%d' % (kind, tracks, spt, side, overshoot, rem))
            res.sample = {'kind': kind, 'overshoot': overshoot, 'entry': target.brief(), 'drive': drive}
    return res


def fingerprint_tail(rng, n):
    """extra recognisable sectors appended after the end of a one-sided image"""
    nonce = rng.getrandbits(16)
    return b''.join(dm.fingerprint(nonce, 9, 1000 + i) for i in range(n))


def main(tier, seed, scale=1.0):
    BIN['san'] = build.ensure('san')
    q = tier == 'quick'
    counts = {'opus': 288 if q else 9600, 'inter': 96 if q else 3000, 'single': 72 if q else 2400, 'mmb': 36 if q else 600,
              'flux': 96 if q else 3000, 'hdfs': 24 if q else 600}
    specs = []
    for k, n in counts.items():
        specs += [(seed, k, i, tier) for i in range(max(6, int(n * scale)))]
    rule = ('one case = one catalogue entry ending boundary-2 .. boundary+3 sectors (last-sector remainders 1/255/256/'
            'random) at the end of an Opus volume A-H, a side of a dsd/ddd or of a two-sided HFE/HxC flux image, a one-sided image (with and without '
            'trailing data) or an MMB slot whose successor is present; type --binary, dump and extract-files are '
            'judged: no output block may equal a container sector outside the region, overruns must fail with a '
            'diagnostic, fitting entries must be delivered; V/S hook records must respect the limits; distinct = '
            '(kind, geometry, volume/side, overshoot, remainder)')
    def post(agg, sigs):
        # vacuity guard: the boundary must actually have been hit
        if agg.cov.get('hook_V_requests_beyond_limit', 0) < 4 or \
                len(agg.cov.get('contexts_with_refused_volume_reads', ())) < 5:
            agg.inconclusive.append('too few reads beyond a volume limit were observed')
            agg.events = 0
        return []
    return run_check(PROP, 'fault_enumeration', case, specs, tier, seed, rule, post=post,
                     assumptions=['the start sector field has 10 bits, so surfaces of more than 1023 sectors are '
                                  'probed at volume ends (Opus) rather than at the surface end',
                                  'constant (all-equal) sectors are not attributable and are ignored'])
