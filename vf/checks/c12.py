"""C12 -- dfs writes only where it was told to and never alters an image.

Monitors: (1) file-system snapshot of a sandbox tree (destination at depth 6,
decoys at every level, cwd elsewhere) before and after every run; (2) on a
sample, strace -f -e trace=%file: every path opened for writing / created /
unlinked / renamed must lie directly inside the destination.
"""
import gzip
import hashlib
import os
import re
import shutil

from .. import build, discmodel as dm
from ..dfsutil import case_rng, dfs, write_file
from ..execu import run, clean_failure_key
from ..runner import run_check, CaseResult, Scratch

PROP = 'C12'
BIN = {}
STRACE = shutil.which('strace')

SPECIAL_NAMES = ['..', '.', '../../x', '../x', '/abs', '/', 'a/b', '-x', '--help', '/etc/x', '..\\x', '~', '~/x', '$HOME',
                 '../inf', 'x/../y', '/../z', './ESC2', '/ESCAPE', 'inf', 'a.inf', '%2F', '%', '..%2F', 'con', '\x01\x02',
                 '\x7f', '*', '?', 'a\nb', 'a\rb', '\x1b[2J', 'x;y', '`id`', '$(id)', '|x', '>x', '<x', '&x', 'a\tb']
SPECIAL_DIRS = ['/', '.', '-', '~', '$', 'A', '\\', '\x01', '\x7f', '*', '#', ':', '%', ' ']


def snapshot(root):
    snap = {}
    for dp, dn, fn in os.walk(root):
        for d in dn:
            p = os.path.join(dp, d)
            snap[p] = ('dir', os.path.islink(p))
        for f in fn:
            p = os.path.join(dp, f)
            try:
                st = os.lstat(p)
                if os.path.islink(p):
                    snap[p] = ('link', os.readlink(p))
                else:
                    with open(p, 'rb') as fh:
                        h = hashlib.sha1(fh.read()).hexdigest()
                    snap[p] = ('file', st.st_size, h)
            except OSError as e:
                snap[p] = ('err', str(e))
    return snap


def hostile_surface(rng):
    n = rng.randint(1, 31)
    ents = []
    seen = set()
    pos = 2
    for i in range(n):
        if rng.random() < 0.5:
            nm = rng.choice(SPECIAL_NAMES)[:7]
        else:
            nm = ''.join(chr(rng.choice([rng.randint(1, 0x7F), 0x2F, 0x2E, 0x2E, rng.randint(0x21, 0x7E)]))
                         for _ in range(rng.randint(1, 7)))
        d = rng.choice(SPECIAL_DIRS) if rng.random() < 0.5 else chr(rng.randint(1, 0x7F))
        if (d, nm) in seen or not nm:
            continue
        seen.add((d, nm))
        ln = rng.choice([0, 1, 16, 256, 300])
        ents.append(dm.Entry(d, nm, rng.random() < 0.3, 0x1900, 0x8023, ln, pos, rng.randbytes(ln)))
        pos += (ln + 255) // 256
    cat = dm.Cat(b'HOSTILE', 0, 1, 0, 400, dm.catalogue_order(ents))
    return dm.Surface('acorn', 40, 10, [dm.Volume(None, 0, 400, 0, cat)], rng.getrandbits(16), 0)


_WR = re.compile(r'O_WRONLY|O_RDWR|O_CREAT|O_TRUNC|O_APPEND')
_CALL = re.compile(r'^\d+\s+(\w+)\((.*)\)\s+=\s+(-?\d+)')
_STR = re.compile(r'"((?:[^"\\]|\\.)*)"')


def unescape(s):
    return bytes(s, 'latin1').decode('unicode_escape').encode('latin1')


def strace_writes(logtext, cwd):
    """-> list of (syscall, absolute path bytes) that create / modify / remove"""
    out = []
    for line in logtext.splitlines():
        m = _CALL.match(line)
        if not m:
            continue
        call, args, rv = m.group(1), m.group(2), int(m.group(3))
        paths = [unescape(x) for x in _STR.findall(args)]
        if call in ('open', 'openat', 'creat', 'openat2'):
            if call != 'creat' and not _WR.search(args):
                continue
            if 'O_TMPFILE' in args:
                continue        # anonymous temporary file (tmpfile(), used for gzip input)
            if rv < 0:
                continue
        elif call in ('unlink', 'unlinkat', 'rename', 'renameat', 'renameat2', 'mkdir', 'mkdirat', 'rmdir', 'link',
                      'linkat', 'symlink', 'symlinkat', 'truncate', 'chmod', 'fchmodat', 'chown', 'utimensat', 'mknod',
                      'mknodat'):
            if rv < 0:
                continue
        else:
            continue
        for p in paths:
            if not p.startswith(b'/'):
                p = os.path.join(cwd.encode(), p)
            out.append((call, os.path.normpath(p)))
    return out


def case(spec):
    seed, idx, tier = spec
    rng = case_rng(seed, PROP, idx)
    res = CaseResult()
    dfsbin = BIN['san']['dfs']
    with Scratch('c12') as tmp:
        root = os.path.join(tmp, 'sandbox')
        destname = rng.choice(['dest', 'dest', 'dest', 'bs\\', 'dot.', 'sp ace', '-dash', 'tilde~', 'q?', 'star*', 'd%2F', 'inf.inf'])
        dest = os.path.join(root, 'l1', 'l2', 'l3', 'l4', 'l5', destname)
        os.makedirs(dest)
        cwd = os.path.join(root, 'cwd')
        os.makedirs(cwd)
        p = root
        for lvl in ['', 'l1', 'l2', 'l3', 'l4', 'l5']:
            p = os.path.join(p, lvl) if lvl else p
            for decoy in ('x', 'y', 'ESC', 'inf', 'abs', 'z', 'ESCAPE', 'ESC2'):
                write_file(os.path.join(p, decoy), b'decoy at ' + p.encode())
        imgdir = os.path.join(root, 'images')
        os.makedirs(imgdir)
        tmpdir = os.path.join(root, 'tmpdir')       # the tools' own temporary files must not survive either
        os.makedirs(tmpdir)
        s = hostile_surface(rng)
        raw = s.image()
        gz = rng.random() < 0.3
        ipath = os.path.join(imgdir, 'hostile.ssd' + ('.gz' if gz else ''))
        write_file(ipath, gzip.compress(raw) if gz else raw)
        # a read-only second image that must stay unaltered too
        files = {'hostile.ssd': raw}
        cmds = []
        slash = rng.choice(['', '/', '//'])
        reldest = rng.random() < 0.3
        dest_arg = (os.path.relpath(dest, cwd) if reldest else dest) + slash
        spelling = idx % 5
        if spelling == 3:
            # relative spellings with './' prefixes and empty components: still the same directory
            dest_arg = rng.choice(['./', './/', '././', './/.//']) + os.path.relpath(dest, cwd) + slash
            res.seen('destination_spellings', 'dot-slash-prefix')
        elif spelling == 4:
            # './/' + the absolute path of a decoy directory without its leading '/': the named directory is the one
            # below the current directory, not the decoy that the text after './/' would name as an absolute path
            decoy_dir = dest
            dest = os.path.join(cwd, decoy_dir.lstrip('/'))
            os.makedirs(dest)
            dest_arg = rng.choice(['.//', '././/', './/./']) + decoy_dir.lstrip('/') + slash
            res.seen('destination_spellings', 'mirror-of-absolute-decoy')
        for xdir in rng.sample(['$', '.', '/', 'A', '-', s.volumes[0].cat.entries[0].dir if s.volumes[0].cat.entries else 'B'], 3):
            cmds.append(('extract-files', ['--dir', xdir], ['extract-files', dest_arg], True))
        cmds.append(('extract-unused', [], ['extract-unused', dest_arg], True))
        ents = s.volumes[0].cat.entries
        for c in rng.sample(['cat', 'free', 'space', 'sector-map', 'show-titles', 'info', 'type', 'dump', 'list',
                             'dump-sector', 'help'], 5):
            if c == 'info':
                args = ['info', '#.*']
            elif c in ('type', 'dump', 'list'):
                e = rng.choice(ents) if ents else None
                args = [c, ':0.%s.%s' % (e.dir, e.name)] if e else [c, 'X']
            elif c == 'dump-sector':
                args = ['dump-sector', '0', '0', '1']
            else:
                args = [c]
            cmds.append((c, ['--verbose'] if rng.random() < 0.2 else [], args, False))
        # images that cannot be opened / decompressed: nothing may be left behind (temporary files included)
        missing = os.path.join(imgdir, 'missing.ssd' + ('.gz' if rng.random() < 0.7 else ''))
        notgz = os.path.join(imgdir, 'notgz.ssd.gz')
        write_file(notgz, raw[:3000])
        cut = os.path.join(imgdir, 'cut.ssd.gz')
        write_file(cut, gzip.compress(raw)[:200])
        for badimg in (missing, notgz, cut):
            cmds.append(('bad-image:' + rng.choice(['cat', 'info', 'type']), [], ['cat'], False, badimg))
        for item in cmds:
            what, pre, args, may_write = item[:4]
            thisimg = item[4] if len(item) > 4 else ipath
            before = snapshot(root)
            use_strace = STRACE and rng.random() < (0.15 if tier == 'quick' else 0.25)
            argv = [dfsbin] + pre + ['--file', thisimg] + args
            if use_strace:
                log = os.path.join(tmp, 'strace.log')
                r_ = run([STRACE, '-f', '-o', log, '-s', '4096', '-e', 'trace=%file', '--'] + argv, cwd=cwd, timeout=60,
                         env={'TMPDIR': tmpdir})
            else:
                r_ = run(argv, cwd=cwd, env={'TMPDIR': tmpdir})
            res.execs += 1
            k = clean_failure_key(r_, (0, 1, 2))
            if k:
                res.violation('%s:%s' % (what, k), 'unclean termination on a hostile catalogue', r_.brief(), files, r_.argv)
            after = snapshot(root)
            res.events += len(after)
            destreal = os.path.realpath(dest)
            changed = []
            for pth in set(before) | set(after):
                if before.get(pth) != after.get(pth):
                    changed.append(pth)
            for pth in sorted(changed):
                parent = os.path.realpath(os.path.dirname(pth))
                inside = parent == destreal
                if not may_write:
                    res.violation('non-extract-command-wrote:' + what, '%s created or changed %r' % (what, pth),
                                  {'before': before.get(pth), 'after': after.get(pth), 'run': r_.brief()}, files, r_.argv)
                elif pth.startswith(imgdir):
                    res.violation('image-altered', 'image file changed: %r' % pth, {'run': r_.brief()}, files, r_.argv)
                elif not inside:
                    res.violation('write-outside-destination:' + what,
                                  '%s created or changed %r, which is not directly inside the destination' % (what, pth),
                                  {'before': before.get(pth), 'after': after.get(pth), 'run': r_.brief(),
                                   'names': [e.full for e in ents]}, files, r_.argv)
                else:
                    res.add('files_created_inside_destination', 1)
            if use_strace and os.path.exists(log):
                res.add('strace_runs', 1)
                text = open(log, 'r', errors='replace').read()
                for call, pth in strace_writes(text, cwd):
                    res.events += 1
                    sp = pth.decode('latin1')
                    par = os.path.realpath(os.path.dirname(sp))
                    if may_write and par == destreal:
                        continue
                    if sp.startswith('/dev/') or sp.startswith('/proc/'):
                        continue
                    if (sp.startswith('/tmp/') or sp.startswith(tmpdir)) and call in ('open', 'openat', 'unlink', 'unlinkat'):
                        res.add('gzip_tempfiles_seen', 1)
                        continue      # tmpfile() fallback: created and immediately unlinked
                    res.violation('strace-write-outside:' + what, '%s(%r) outside the destination' % (call, sp),
                                  {'run': r_.brief()}, files, r_.argv)
                os.unlink(log)
            # clean destination for the next command (keeps the check per command)
            for f in os.listdir(dest):
                fp = os.path.join(dest, f)
                if os.path.isdir(fp) and not os.path.islink(fp):
                    shutil.rmtree(fp)
                else:
                    os.unlink(fp)
            res.sigs.append('%s|%s|%d|%s' % (what, ','.join(pre), idx, slash))
        for e in ents:
            for ch in e.name + e.dir:
                res.seen('name_bytes', ord(ch))
        res.sample = {'names': [e.full for e in ents][:10], 'dest_arg': dest_arg, 'gz': gz}
    return res


def main(tier, seed, scale=1.0):
    BIN['san'] = build.ensure('san')
    n = int((300 if tier == 'quick' else 15000) * scale)
    specs = [(seed, i, tier) for i in range(n)]
    rule = ('one case = one hostile catalogue (names and directory bytes from 0x01-0x7F incl. / .. - control characters '
            'and shell metacharacters) in a sandbox with the destination 6 levels deep and decoy files at every level; '
            'extract-files under 3 --dir settings, extract-unused and 5 other commands; a before/after snapshot (hash '
            'of every file) must show changes only directly inside the destination (none for non-extract commands, '
            'never in the image); a sample also runs under strace -e trace=%file; distinct = (command, options, case)')
    return run_check(PROP, 'exploration', case, specs, tier, seed, rule,
                     assumptions=['the anonymous temporary file used for decompressing .gz images is not a user-visible file'])
