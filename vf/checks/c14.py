"""C14 -- free, space, sector-map and extract-unused agree with the catalogue
and with each other.

Oracle: ownership map of the generated disc (vf.discmodel.Surface.owners) and
the rules of DESIGN.md Appendix B.
"""
import os
import re

from .. import build, discmodel as dm, refmodel as rm
from ..dfsutil import case_rng, make_image, dfs, screen
from ..runner import run_check, CaseResult, Scratch

PROP = 'C14'
BIN = {}


def runs_of(flags):
    """maximal runs of True in a list -> [(first, count)]"""
    out = []
    i = 0
    n = len(flags)
    while i < n:
        if not flags[i]:
            i += 1
            continue
        a = i
        while i < n and flags[i]:
            i += 1
        out.append((a, i - a))
    return out


def case(spec):
    seed, idx, tier = spec
    rng = case_rng(seed, PROP, idx)
    res = CaseResult()
    dfsbin = BIN['san']['dfs']
    with Scratch('c14') as tmp:
        kw = {}
        r = idx % 10
        if r == 0:
            kw['nfiles'] = 0
        elif r == 1:
            kw.update(variant='watford', watford_split=0)
        elif r == 2:
            kw.update(variant='watford', watford_split=99)
        elif r == 3:
            kw.update(variant='watford', nfiles=0)
        elif r == 4:
            kw.update(variant='opus')
        elif r == 5:
            kw.update(style='edge')
        elif r == 6:
            kw.update(style='packed')
        img = make_image(rng, tmp, maxlen_sectors=rng.choice([None, 6, 40]), **kw)
        raw = open(img.path, 'rb').read()
        files = {os.path.basename(img.path): raw} if len(raw) < 3000000 else {}
        for s, drive in zip(img.surfaces, img.drives):
            res.seen('variants', s.variant)
            own = s.owners()
            simg = s.image()
            # ------------------------------------------------ free + space per volume
            for v in s.volumes:
                dv = '%d%s' % (drive, v.label or '')
                if v.label == 'A' and rng.random() < 0.4:
                    dv = str(drive)        # on an Opus disc the drive number alone means volume A
                    res.add('opus_volume_A_by_bare_drive_number', 1)
                ents = v.cat.all_entries()
                if s.variant == 'watford':
                    res.seen('watford_halves', (bool(v.cat.entries), bool(v.cat.entries2)))
                res.seen('zero_length_files', sum(1 for e in ents if e.length == 0) > 0)
                use_arg = rng.random() < 0.5
                args, pre = (['free', dv], []) if use_arg else (['free'], ['--drive', dv])
                r_ = dfs(dfsbin, img.path, args, pre=pre)
                res.execs += 1
                if not screen(res, r_, PROP, 'free', files):
                    res.events += 1
                    d = rm.parse_free(r_.out) if r_.rc == 0 else None
                    ff, sf, fu, su = rm.free_numbers(s, v)
                    bad = None
                    if d is None:
                        bad = 'free failed or printed something unparseable'
                    else:
                        gf, gu = d['Free'], d['Used']
                        slots = 62 if s.variant == 'watford' else 31
                        if gf[0] + gu[0] != slots or gu[0] != fu:
                            bad = 'file counts %d free + %d used (expected %d + %d)' % (gf[0], gu[0], ff, fu)
                        elif gf[1] + gu[1] != v.cat.total:
                            bad = 'sectors %X free + %X used != total %X' % (gf[1], gu[1], v.cat.total)
                        elif gf[2] != gf[1] * 256 or gu[2] != gu[1] * 256:
                            bad = 'byte counts are not sectors*256'
                        elif gf[3] != rm.thousands(gf[2]) or gu[3] != rm.thousands(gu[2]):
                            bad = 'byte counts not printed with thousands separators'
                        elif gu[1] != su and not (s.variant == 'opus' and not any(e.length for e in ents)):
                            bad = 'used sectors %X, expected %X' % (gu[1], su)
                    if bad:
                        res.violation('free-mismatch', 'free: ' + bad,
                                      {'run': r_.brief(), 'expected': [ff, sf, fu, su], 'surface': s.describe()},
                                      files, r_.argv)
                r_ = dfs(dfsbin, img.path, ['space', dv])
                res.execs += 1
                if not screen(res, r_, PROP, 'space', files):
                    res.events += 1
                    exp = rm.gaps(s, v)
                    got = rm.parse_space(r_.out) if r_.rc == 0 else None
                    bad = None
                    if got is None:
                        bad = 'space failed or printed something unparseable'
                    elif sorted(got[0]) != sorted(c for _, c in exp):
                        bad = 'gap multiset %r, expected %r' % (sorted(got[0]), sorted(c for _, c in exp))
                    elif got[1] != sum(c for _, c in exp):
                        bad = 'total %X, expected %X' % (got[1], sum(c for _, c in exp))
                    else:
                        # conservation: catalogue + files + gaps = total
                        filesec = sum(e.nsectors for e in ents)
                        if s.cat_sectors() + filesec + got[1] != v.cat.total:
                            bad = 'conservation violated'
                    if bad:
                        res.violation('space-mismatch', 'space: ' + bad,
                                      {'run': r_.brief(), 'surface': s.describe()}, files, r_.argv)
                res.sigs.append('%s|%d|%s|%s' % (s.variant, len(ents), tuple(c for _, c in rm.gaps(s, v))[:6],
                                                 v.cat.total))
            # ------------------------------------------------ space with several volumes in one invocation
            allv = [('%d%s' % (d2, v2.label or ''), s2, v2) for s2, d2 in zip(img.surfaces, img.drives) for v2 in s2.volumes]
            if len(allv) >= 2 and drive == img.drives[0]:
                k = rng.randint(2, min(4, len(allv)))
                chosen = rng.sample(allv, k)
                # put an empty / catalogue-only volume last when there is one (state carried between volumes)
                chosen.sort(key=lambda t: 1 if not any(e.length for e in t[2].cat.all_entries()) else 0)
                r_ = dfs(dfsbin, img.path, ['space'] + [c[0] for c in chosen])
                res.execs += 1
                if not screen(res, r_, PROP, 'space-multi', files):
                    res.events += 1
                    res.add('space_multi_volume_runs', 1)
                    got = rm.parse_space_multi(r_.out) if r_.rc == 0 else None
                    bad = None
                    if got is None or len(got[0]) != len(chosen):
                        bad = 'failed, unparseable or wrong number of volume blocks'
                    else:
                        tot_all = 0
                        for (sel, gl, tot), (dv2, s2, v2) in zip(got[0], chosen):
                            exp = rm.gaps(s2, v2)
                            tot_all += sum(c for _, c in exp)
                            if sel != dv2 or sorted(gl) != sorted(c for _, c in exp) or tot != sum(c for _, c in exp):
                                bad = 'volume %s: gaps %r total %X, expected %r total %X' % (
                                    sel, sorted(gl), tot, sorted(c for _, c in exp), sum(c for _, c in exp))
                                break
                        if not bad and got[1].get('*') is not None and got[1]['*'] != tot_all and \
                                len(set(c[0] for c in chosen)) == len(chosen):
                            bad = 'grand total %X, expected %X' % (got[1]['*'], tot_all)
                    if bad:
                        res.violation('space-multi-mismatch', 'space with several volumes: ' + bad,
                                      {'run': r_.brief(), 'volumes': [c[0] for c in chosen]}, files, r_.argv)
            # ------------------------------------------------ sector-map per surface
            use_arg = rng.random() < 0.5
            args, pre = (['sector-map', str(drive)], []) if use_arg else (['sector-map'], ['--drive', str(drive)])
            r_ = dfs(dfsbin, img.path, args, pre=pre)
            res.execs += 1
            cells = None
            if not screen(res, r_, PROP, 'sector-map', files):
                cells = rm.parse_sector_map(r_.out) if r_.rc == 0 else None
                limit = s.nsectors if s.variant == 'opus' else s.volumes[0].cat.total
                if cells is None or len(cells) != limit:
                    res.violation('sector-map-shape', 'sector-map failed or does not list %d sectors' % limit,
                                  {'run': r_.brief(), 'cells': None if cells is None else len(cells),
                                   'surface': s.describe()}, files, r_.argv)
                    cells = None
                else:
                    file_labels = set()
                    for v in s.volumes:
                        for e in v.cat.all_entries():
                            file_labels.add(rm.sector_label(s, v.label, e))
                    for lba in range(limit):
                        o = own.get(lba)
                        c = cells[lba]
                        res.events += 1
                        bad = None
                        if o is None:
                            if c != '-':
                                bad = 'free sector %d labelled %r' % (lba, c)
                        elif o[0] == 'file':
                            want = rm.sector_label(s, o[1], o[2])
                            if c != want:
                                bad = 'sector %d labelled %r, owner is %r' % (lba, c, want)
                        elif o[0] == 'catslot':
                            pass      # unused Opus catalogue slot: not judged
                        else:
                            if c == '-' or c in file_labels:
                                bad = 'catalogue sector %d labelled %r' % (lba, c)
                        if bad:
                            res.violation('sector-map-mismatch', 'sector-map: ' + bad,
                                          {'run': r_.brief(), 'surface': s.describe()}, files, r_.argv)
                            break
            # ------------------------------------------------ extract-unused vs sector-map and image
            dest = os.path.join(tmp, 'unused-%d' % drive)
            os.mkdir(dest)
            r_ = dfs(dfsbin, img.path, ['extract-unused', dest + rng.choice(['', '/'])], pre=['--drive', str(drive)])
            res.execs += 1
            if not screen(res, r_, PROP, 'extract-unused', files):
                if r_.rc != 0:
                    res.violation('extract-unused-failed', 'extract-unused failed on a well-formed disc',
                                  {'run': r_.brief(), 'surface': s.describe()}, files, r_.argv)
                elif cells is not None:
                    exp_runs = runs_of([c == '-' for c in cells])
                    got = {}
                    for f in os.listdir(dest):
                        m = re.match(r'^unused_([0-9A-F]{3,})\.bin$', f)
                        got[f] = (int(m.group(1), 16) if m else None, open(os.path.join(dest, f), 'rb').read())
                    res.events += len(exp_runs)
                    bad = None
                    want_names = {'unused_%03X.bin' % a: (a, n) for a, n in exp_runs}
                    if set(got) != set(want_names):
                        bad = 'file set %r, sector-map shows free runs %r' % (sorted(got)[:8], sorted(want_names)[:8])
                    else:
                        for f, (a, n) in want_names.items():
                            if got[f][1] != simg[a * 256:(a + n) * 256]:
                                blk = got[f][1][:256]
                                bad = '%s (%d sectors) content differs from sectors %d..%d (first block is %r)' % (
                                    f, len(got[f][1]) // 256, a, a + n - 1, dm.parse_fingerprint(blk))
                                break
                    # the count sentence is free text: judged only where a number of files can be read from it
                    m = re.search(rb'(\d+) files?\b', r_.out)
                    if m:
                        res.add('extract_unused_count_sentences_read', 1)
                    if not bad and m and int(m.group(1)) != len(exp_runs):
                        bad = 'reported count %r, expected %d' % (m.group(1), len(exp_runs))
                    if bad:
                        res.violation('extract-unused-mismatch', 'extract-unused: ' + bad,
                                      {'run': r_.brief(), 'surface': s.describe()}, files, r_.argv)
        res.sample = {'image': os.path.basename(img.path), 'surface': img.surfaces[0].describe()}
    return res


def main(tier, seed, scale=1.0):
    BIN['san'] = build.ensure('san')
    n = int((500 if tier == 'quick' else 25000) * scale)
    specs = [(seed, i, tier) for i in range(n)]
    rule = ('one case = one generated non-overlapping disc (0..31/62 files, zero-length files, gaps anywhere, all four '
            'Watford half combinations, Opus volumes); per volume free and space vs the reference rules, per surface '
            'every sector-map cell vs the ownership model and extract-unused vs the runs of unowned cells and the '
            'image bytes; distinct = (variant, file count, gap sizes, total)')
    return run_check(PROP, 'exploration', case, specs, tier, seed, rule,
                     assumptions=['used-sector figure of an Opus volume without non-empty files is not judged',
                                  'labels of catalogue sectors are only required to be neither "-" nor a file label',
                                  'unused Opus catalogue slots of track 0 are not judged in sector-map'])
