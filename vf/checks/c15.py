"""C15 -- wildcards and file names select exactly the files DFS semantics say.

Oracle: reference matcher written from doc/dfs.1 (DFS WILDCARDS, DFS FILE
NAMES): '#' one character except '.', '*' any run except '.', letters fold
case, everything else literal; defaults from --drive / --dir.
"""
import os

from .. import build, discmodel as dm, refmodel as rm
from ..dfsutil import case_rng, dfs, screen, write_file
from ..runner import run_check, CaseResult, Scratch

PROP = 'C15'
BIN = {}

# every printing character that can appear in a DFS name and on our command line
ALPHA = ''.join(chr(c) for c in range(0x21, 0x7F) if chr(c) not in '.:#*')
META = '^$[]()\\+?|{}-'


def build_surface(rng, names, variant, opus_label=None):
    """names: list of (dir, name); small bodies; returns Surface"""
    first = {'acorn': 2, 'watford': 4, 'opus': 0}[variant]
    ents = []
    pos = first
    for d, nm in names:
        ln = rng.choice([1, 7, 256, 300])
        ents.append(dm.Entry(d, nm, rng.random() < 0.3, rng.getrandbits(18), rng.getrandbits(18), ln, pos,
                             ('%s.%s|' % (d, nm)).encode('latin1') + rng.randbytes(max(0, ln - len(nm) - 3))))
        ents[-1].body = ents[-1].body[:ln].ljust(ln, b'~')
        pos += (ln + 255) // 256
    if variant == 'opus':
        vols = []
        labels = 'ABCDEFGH'[:rng.choice([1, 1, 2, 3, rng.randint(1, 8)])] if opus_label is None else 'ABCDEFGH'[:max(2, 'ABCDEFGH'.index(opus_label) + 1)]
        tracks = 40
        starts = sorted(rng.sample(range(2, tracks), len(labels) - 1))
        starts = [1] + starts
        ends = starts[1:] + [tracks]
        target = opus_label or rng.choice(labels)
        for i, lab in enumerate(labels):
            vlen = (ends[i] - starts[i]) * 18
            if lab == target:
                es = [e for e in ents if e.start + e.nsectors <= vlen][:31]
                cat = dm.Cat(b'TARGET', 0, 1, 0, vlen, dm.catalogue_order(es))
            else:
                # decoy volume with similar names in it
                dec = []
                p = 0
                for d, nm in names[:5]:
                    dec.append(dm.Entry(d, nm, False, 0, 0, 5, p, b'DECOY'))
                    p += 1
                cat = dm.Cat(b'DECOY' + lab.encode(), 0, 2, 0, vlen, dm.catalogue_order(dec))
            vols.append(dm.Volume(lab, starts[i] * 18, vlen, 2 * i, cat))
        s = dm.Surface('opus', tracks, 18, vols, rng.getrandbits(16), 0, 'MFM')
        return s, target
    total = 400
    if variant == 'watford':
        k = min(31, len(ents) // 2)
        cat = dm.Cat(b'WILD', 0, 1, 0, total, dm.catalogue_order(ents[:k]), dm.catalogue_order(ents[k:k + 31]))
    else:
        cat = dm.Cat(b'WILD', 0, 1, 0, total, dm.catalogue_order(ents[:31]))
    return dm.Surface(variant, 40, 10, [dm.Volume(None, 0, 400, 0, cat)], rng.getrandbits(16), 0), None


def dedupe(names):
    seen = set()
    out = []
    for d, nm in names:
        if not nm or len(nm) > 7 or nm == 'L':
            continue
        k = (d.lower(), nm.lower())
        if k in seen:
            continue
        seen.add(k)
        out.append((d, nm))
    return out


def rand_pattern(rng, alpha, names):
    r = rng.random()
    if r < 0.3 and names:
        # derived from an existing name: replace some characters with wildcards / change case
        d, nm = rng.choice(names)
        chars = list(nm)
        for i in range(len(chars)):
            q = rng.random()
            if q < 0.2:
                chars[i] = '#'
            elif q < 0.3:
                chars[i] = chars[i].swapcase()
            elif q < 0.35:
                chars[i] = rng.choice(alpha)
        if rng.random() < 0.3:
            k = rng.randint(0, len(chars))
            chars[k:] = ['*']
        if rng.random() < 0.15:
            chars.insert(rng.randint(0, len(chars)), '*')
        name = ''.join(chars)
    else:
        n = rng.choice([1, 1, 2, 2, 3, 4, 7, 8])
        name = ''.join(rng.choice(alpha + '#*' * 3) for _ in range(n))
    return name


def case(spec):
    seed, kind, idx, tier = spec
    rng = case_rng(seed, PROP, (kind, idx))
    res = CaseResult()
    dfsbin = BIN['san']['dfs']
    with Scratch('c15') as tmp:
        patterns = []      # list of name-part strings
        if kind == 'sweep':
            c = ALPHA[idx % len(ALPHA)]
            alpha = c + 'Aa' + rng.choice(META) + rng.choice(ALPHA)
            names = [('$', c), ('$', c + 'A'), ('$', 'A' + c), ('$', c + c), ('$', 'A'), ('$', 'AA'), ('$', 'B'),
                     ('$', c + 'B' + c), ('Q', c), ('Q', 'Z' + c), (c, 'DIRC'), (c, c), ('$', 'AB' + c + 'DE')]
            twin = chr(ord(c) ^ 0x20)
            if twin in ALPHA and not c.isalpha():
                names += [('$', twin + 'T'), ('$', c + 'T'), ('$', 'TT' + twin)]
            names += [(rng.choice('$Q' + c), ''.join(rng.choice(alpha) for _ in range(rng.randint(1, 4))))
                      for _ in range(10)]
            names = dedupe(names)
            patterns = [c, c + 'A', 'A' + c, c + '#', '#' + c, c + '*', '*' + c, c + c, 'a' + c, c + 'a',
                        '#', '##', '*', c + '#' + c, '*' + c + '*']
            variant = rng.choice(['acorn', 'acorn', 'watford'])
        else:
            k = rng.randint(3, 9)
            alpha = ''.join(rng.sample(ALPHA, k)) + rng.choice(META) + rng.choice('AbZq')
            alpha += alpha.swapcase()
            n = rng.choice([5, 20, 31, 60])
            names = dedupe([(rng.choice('$$$' + alpha[:3] + 'AaB'),
                             ''.join(rng.choice(alpha) for _ in range(rng.choice([1, 1, 2, 2, 3, 5, 7]))))
                            for _ in range(n * 2)])[:n]
            variant = rng.choice(['acorn', 'watford', 'opus'])
            patterns = [rand_pattern(rng, alpha, names) for _ in range(18 if tier == 'quick' else 30)]
        s, target_vol = build_surface(rng, names, variant)
        vol = s.volume(target_vol) if target_vol else s.volumes[0]
        ents = vol.cat.all_entries()
        path = os.path.join(tmp, 'w.%s' % dm.ext_for(s))
        raw = s.image()
        write_file(path, raw)
        # a second, plain Acorn disc in drive 1: explicit ':1.' specifications must reach it whatever the current
        # drive / volume is
        s2, _ = build_surface(rng, names[:12], 'acorn')
        path2 = os.path.join(tmp, 'second.ssd')
        write_file(path2, s2.image())
        ents2 = s2.volumes[0].cat.all_entries()
        # a second, different image on another drive so that the drive default matters
        files = {os.path.basename(path): raw}
        res.seen('variants', variant)
        dirs_present = sorted(set(e.dir for e in ents))
        for namepat in patterns:
            if not namepat or '.' in namepat:
                continue
            # qualification
            cur_dir = rng.choice(['$'] + dirs_present + ['K'])
            cur_drive = 0
            # on an Opus disc a drive without a volume letter means volume A (however many volumes there are)
            bare = target_vol == 'A' and rng.random() < 0.6
            cur_vol = target_vol if (target_vol and not bare and rng.random() < 0.5) else None
            q = rng.random()
            dirpat = None
            if q < 0.35:
                dirpat = rng.choice(dirs_present + ['#', '*', 'x', '$']) if dirs_present else '#'
            pat = namepat
            if dirpat is not None:
                pat = dirpat + '.' + pat
            explicit_drive = rng.random() < 0.35 or (target_vol and cur_vol is None and not bare)
            if explicit_drive:
                pat = ':0%s.%s' % ('' if bare else (target_vol or ''), pat)
            if bare:
                res.add('opus_volume_A_by_bare_drive_number', 1)
            pre = []
            if cur_dir != '$' or rng.random() < 0.2:
                pre += ['--dir', cur_dir]
            if cur_vol:
                pre += ['--drive', '0' + cur_vol]
            if rng.random() < 0.25:
                # a presentation option after (or before) the context options must not disturb them
                uo = ['--ui', rng.choice(['acorn', 'watford', 'opus'])]
                pre = pre + uo if rng.random() < 0.7 else uo + pre
            if not explicit_drive and target_vol and not cur_vol and not bare:
                continue
            parsed = rm.parse_afsp(pat, 0, cur_dir)
            if parsed is None:
                continue
            _, pvol, pdir, pname = parsed
            exp = [e for e in ents if rm.wild_match(pdir, e.dir) and rm.wild_match(pname, e.name)]
            r_ = dfs(dfsbin, path, ['info', pat], pre=pre)
            res.execs += 1
            if screen(res, r_, PROP, 'info', files):
                continue
            res.events += 1
            lines = [l for l in r_.out.split(b'\n') if l]
            got = [rm.parse_info_line(l) for l in lines]
            gotnames = [(g['dir'], g['name']) if g else None for g in got]
            expnames = [(e.dir, e.name) for e in exp]
            res.seen('pattern_chars', ''.join(sorted(set(namepat))))
            res.sigs.append('info|%s|%s|%d' % (pat, cur_dir, len(names)))
            if r_.rc != 0 or gotnames != expnames:
                cls = 'extra' if any(g not in expnames for g in gotnames) else 'missing'
                if r_.rc != 0:
                    cls = 'rejected'
                mc = ''.join(sorted(set(ch for ch in namepat if ch in META)))
                res.violation('info-select-%s' % cls,
                              'info %r selected %r, the documented semantics select %r' % (pat, gotnames[:6], expnames[:6]),
                              {'pattern': pat, 'cur_dir': cur_dir, 'pre': pre, 'metachars': mc, 'run': r_.brief(),
                               'catalogue': [e.full for e in ents]}, files, r_.argv)
        # ---------------- explicit drive 1 (second image) under any current drive / volume
        for _ in range(4):
            pre = []
            if target_vol and rng.random() < 0.7:
                pre += ['--drive', '0' + target_vol]
            elif rng.random() < 0.3:
                pre += ['--drive', '0']
            cur_dir = rng.choice(['$', 'K'] + sorted(set(e.dir for e in ents2))[:2])
            if cur_dir != '$':
                pre += ['--dir', cur_dir]
            namepat = rand_pattern(rng, alpha if kind != 'sweep' else alpha, [(e.dir, e.name) for e in ents2])
            if not namepat or '.' in namepat:
                continue
            pat = ':1.' + (rng.choice(['#.', '$.', '*.', '']) + namepat)
            parsed = rm.parse_afsp(pat, 0, cur_dir)
            if parsed is None:
                continue
            _, _, pdir, pname = parsed
            exp = [(e.dir, e.name) for e in ents2 if rm.wild_match(pdir, e.dir) and rm.wild_match(pname, e.name)]
            r_ = dfs(dfsbin, [path, path2], ['info', pat], pre=['--drive-first'] + pre)
            res.execs += 1
            if screen(res, r_, PROP, 'info', files):
                continue
            res.events += 1
            got = [rm.parse_info_line(l) for l in r_.out.split(b'\n') if l]
            gotnames = [(g['dir'], g['name']) if g else None for g in got]
            if r_.rc != 0 or gotnames != exp:
                res.violation('info-select-other-drive', 'info %r (second image on drive 1, options %r) selected %r, expected %r'
                              % (pat, pre, gotnames[:6], exp[:6]), {'run': r_.brief()}, files, r_.argv)
            if ents2:
                e2 = rng.choice(ents2)
                r_ = dfs(dfsbin, [path, path2], ['type', '--binary', ':1.%s.%s' % (e2.dir, e2.name)], pre=['--drive-first'] + pre)
                res.execs += 1
                res.events += 1
                if not screen(res, r_, PROP, 'type', files) and (r_.rc != 0 or r_.out != e2.body):
                    res.violation('resolve-other-drive', 'type :1.%s.%s did not deliver the file of the disc in drive 1 (options %r)'
                                  % (e2.dir, e2.name, pre), {'run': r_.brief()}, files, r_.argv)
            res.sigs.append('drive1|%s|%s' % (pat, ' '.join(pre)))
        # ---------------- name resolution for type / list / dump
        probes = []
        for e in (rng.sample(ents, min(len(ents), 4)) if ents else []):
            probes.append((e, True))
        def legal(ch):
            return ch in ALPHA

        def absent(d, nn):
            if not nn or len(nn) > 7:
                return False
            return not any(x.dir == d and x.name.lower() == nn.lower() for x in ents)
        for _ in range(6):
            # near-miss names: one character of a present name with a single bit flipped
            # (e.g. '[' vs '{', '@' vs '`', '1' vs '0'): only letters may fold case
            if ents:
                e = rng.choice(ents)
                i = rng.randrange(len(e.name))
                bit = rng.choice([5, 5, 0, 1, 2, 3, 4, 6])
                ch = chr(ord(e.name[i]) ^ (1 << bit))
                nn = e.name[:i] + ch + e.name[i + 1:]
                if legal(ch) and absent(e.dir, nn):
                    probes.append((dm.Entry(e.dir, nn, False, 0, 0, 0, 0, b''), False))
                    res.add('near_miss_probes', 1)
        for _ in range(4):
            # absent names: a present name in a directory where it does not exist, or a mutated name
            if ents:
                e = rng.choice(ents)
                if rng.random() < 0.5:
                    nd = rng.choice([d for d in 'KJWxyz' if not any(x.dir.lower() == d.lower() and x.name.lower() == e.name.lower() for x in ents)])
                    fake = dm.Entry(nd, e.name, False, 0, 0, 0, 0, b'')
                else:
                    nn = (e.name + 'Z')[:7] if len(e.name) < 7 else e.name[:-1]
                    if any(x.dir == e.dir and x.name.lower() == nn.lower() for x in ents) or not nn:
                        continue
                    fake = dm.Entry(e.dir, nn, False, 0, 0, 0, 0, b'')
                probes.append((fake, False))
        for e, present in probes:
            cur_dir = rng.choice(['$', e.dir])
            form = rng.random()
            nm = rng.choice([e.name, e.name.lower(), e.name.upper()])
            pre = []
            if cur_dir != '$':
                pre += ['--dir', cur_dir]
            dv = '0' + (target_vol or '')
            if target_vol == 'A' and rng.random() < 0.6:
                # no letter anywhere: drive 0 of an Opus disc means volume A
                dv = '0'
                implicit_drive = True
                res.add('opus_volume_A_by_bare_drive_number', 1)
            elif target_vol and rng.random() < 0.5:
                pre += ['--drive', dv]
                implicit_drive = True
            else:
                implicit_drive = not target_vol
            if form < 0.3 and e.dir == cur_dir and implicit_drive and not nm.startswith('-'):
                sp = nm
            elif form < 0.6 and implicit_drive and e.dir != '-':
                sp = '%s.%s' % (e.dir, nm)
            else:
                sp = ':%s.%s.%s' % (dv, e.dir, nm)
            if rng.random() < 0.25:
                uo = ['--ui', rng.choice(['acorn', 'watford', 'opus'])]
                pre = pre + uo if rng.random() < 0.7 else uo + pre
            cmd = rng.choice(['type', 'type', 'list', 'dump'])
            args = [cmd, '--binary', sp] if cmd == 'type' else [cmd, sp]
            if cmd == 'type' and rng.random() < 0.25:
                args = ['type', sp]
            if nm.startswith('-') and e.dir == cur_dir and implicit_drive and rng.random() < 0.7:
                # a leaf name that looks like an option: the documented `--` marker ends the options of type
                args = ['type', '--binary', '--', nm]
                cmd, sp = 'type', nm
                res.add('names_after_double_dash', 1)
            r_ = dfs(dfsbin, path, args, pre=pre)
            res.execs += 1
            if screen(res, r_, PROP, cmd, files):
                continue
            res.events += 1
            res.sigs.append('%s|%s|%s' % (cmd, sp, present))
            if present:
                ok = r_.rc == 0
                if ok and args[:2] == ['type', '--binary']:
                    ok = r_.out == e.body
                if not ok:
                    res.violation('resolve-present-failed', '%s %r did not deliver catalogued file %s' % (cmd, sp, e.full),
                                  {'run': r_.brief(), 'pre': pre, 'catalogue': [x.full for x in ents]}, files, r_.argv)
            else:
                if r_.rc == 0 or b'not found' not in r_.err.lower():
                    res.violation('resolve-absent-accepted', '%s %r succeeded or did not say "not found" for an absent file' % (cmd, sp),
                                  {'run': r_.brief(), 'pre': pre, 'catalogue': [x.full for x in ents]}, files, r_.argv)
        res.sample = {'kind': kind, 'variant': variant, 'names': ['%s.%s' % n for n in names[:12]], 'patterns': patterns[:10]}
    return res


def main(tier, seed, scale=1.0):
    BIN['san'] = build.ensure('san')
    nsweep = len(ALPHA) if tier == 'thorough' else max(2, int(len(ALPHA) * min(1.0, scale)))
    nrand = int((90 if tier == 'quick' else 5000) * scale)
    specs = [(seed, 'sweep', i, tier) for i in range(nsweep)] + [(seed, 'rand', i, tier) for i in range(nrand)]
    rule = ('sweep cases: for every printing character c except . : # * a catalogue containing c in every position of '
            '1..3 character names, and the patterns c, cA, Ac, c#, #c, c*, *c, cc, ac, ca, #, ##, *, c#c, *c*; random '
            'cases: catalogues over small alphabets that include regex metacharacters with patterns derived from '
            'the names; plus present/absent probes of type/list/dump; distinct = (command, pattern or name, context)')
    return run_check(PROP, 'exploration', case, specs, tier, seed, rule,
                     extra_cov={'alphabet_size': len(ALPHA), 'exhaustive': False},
                     assumptions=['directory letters are probed in matching case for type/list/dump',
                                  'catalogue names never contain . : # * or space'])
