"""C04 -- sector-dump containers map (drive, track, sector) to the documented
offset.

Monitors: (1) fingerprint oracle: every sector of every generated surface is
unique, so the 256 bytes dump-sector shows identify the sector they came
from; (2) hook invariant: the S (view) and F (file) records of the read must
carry the documented file position; (3) reads beyond a surface, beyond the end
of a truncated file, or of unformatted/invalid MMB slots must fail.
"""
import os
import re

from .. import build, discmodel as dm
from ..dfsutil import case_rng, dfs, screen, write_file
from ..runner import run_check, CaseResult, Scratch

PROP = 'C04'
BIN = {}
KNOWN_TWO_SIDED_SSD = 'ssd-two-sided-side1-not-attached'

_ROW = re.compile(rb'^[0-9A-Fa-f]+((?: (?:[0-9A-F]{2}|\*\*)){8}) ')


def parse_hexdump(out):
    data = bytearray()
    for line in out.split(b'\n'):
        if not line:
            continue
        m = _ROW.match(line)
        if not m:
            return None
        data += bytes(int(x, 16) for x in m.group(1).split() if x != b'**')
    return bytes(data)


def doc_offset(kind, side, tracks, spt, t, s, slot=None):
    """documented position (in sectors) within the container file"""
    if kind == 'single':
        return t * spt + s
    if kind == 'twosided':
        return side * tracks * spt + t * spt + s
    if kind == 'inter':
        return (2 * t + side) * spt + s
    if kind == 'mmb':
        return 32 + 800 * slot + 10 * t + s
    raise ValueError(kind)


def check_trace(res, r_, want_pos, what, files):
    """hook invariant for one dump-sector run"""
    s_recs = [l.split() for l in r_.trace.splitlines() if l.startswith('S ')]
    f_recs = [l.split() for l in r_.trace.splitlines() if l.startswith('F ')]
    res.add('hook_S_records', len(s_recs))
    res.add('hook_F_records', len(f_recs))
    if not s_recs or not f_recs:
        res.inconclusive.append('no hook records for %r' % (r_.argv,))
        return
    res.events += len(s_recs) + len(f_recs)
    last_s = s_recs[-1]
    last_f = f_recs[-1]
    if last_s[-1] == 'REFUSED':
        return
    if int(last_s[-1]) != want_pos or int(last_f[1]) != want_pos or int(last_f[2]) != 256:
        res.violation('hook-offset:' + what,
                      'sector read at file position %s (view) / %s (file), documented position is %d'
                      % (last_s[-1], last_f[1], want_pos),
                      {'trace_tail': r_.trace.splitlines()[-6:], 'run': r_.brief()}, files, r_.argv)


def probe(res, dfsbin, paths, pre, drive, t, s, expect, want_pos, what, files, trace=True):
    """dump-sector drive t s must print exactly `expect` (256 bytes)"""
    r_ = dfs(dfsbin, paths, ['dump-sector', str(drive), str(t), str(s)], pre=pre, trace=trace)
    res.execs += 1
    if screen(res, r_, PROP, 'dump-sector', files):
        return
    res.events += 1
    got = parse_hexdump(r_.out) if r_.rc == 0 else None
    if got != expect:
        fp = dm.parse_fingerprint(got) if got else None
        res.violation('dump-sector-wrong-data:' + what,
                      'dump-sector %d %d %d shows %s, expected the sector stored at the documented offset'
                      % (drive, t, s, ('fingerprint of surface %d lba %d (nonce %04X)' % (fp[1], fp[2], fp[0])) if fp
                         else ('exit %d' % r_.rc if got is None else 'other data')),
                      {'run': r_.brief(), 'want_pos': want_pos}, files, r_.argv)
        return
    if trace and want_pos is not None:
        check_trace(res, r_, want_pos, what, files)


def must_fail(res, dfsbin, paths, pre, args, what, files):
    r_ = dfs(dfsbin, paths, args, pre=pre)
    res.execs += 1
    if screen(res, r_, PROP, what, files):
        return
    res.events += 1
    if r_.rc == 0 or not r_.err.strip() or (args[0] in ('dump-sector', 'type', 'cat', 'show-titles', 'info', 'free') and r_.out.strip()):
        res.violation('beyond-end-accepted:' + what,
                      '%s succeeded, was silent, or produced data: %r' % (what, args),
                      {'run': r_.brief()}, files, r_.argv)


def sample_addresses(rng, tracks, spt, n):
    pts = {(0, 0), (0, spt - 1), (tracks - 1, 0), (tracks - 1, spt - 1), (1, 0), (tracks // 2, spt // 2)}
    while len(pts) < n:
        pts.add((rng.randrange(tracks), rng.randrange(spt)))
    return sorted(pts)


def case(spec):
    seed, kind, idx, tier = spec
    rng = case_rng(seed, PROP, (kind, idx))
    res = CaseResult()
    dfsbin = BIN['san']['dfs']
    nsamp = 8 if tier == 'quick' else 30
    with Scratch('c04') as tmp:
        if kind in ('single', 'inter'):
            variant = rng.choice(['acorn', 'acorn', 'watford', 'opus'])
            spt = 18 if variant == 'opus' else rng.choice([10, 18])
            if kind == 'inter' and variant != 'opus' and idx % 4 == 3:
                spt = 16          # a two-sided interleaved image identifies its 16 sectors per track by the second catalogue
            if spt == 16:
                tr16 = rng.choice([35, 40, 80])
                tot16 = {35: rng.randint(40, 560), 40: rng.randint(561, 640), 80: rng.randint(641, 1023)}[tr16]
                s0 = dm.gen_surface(rng, variant=variant, spt=16, total=tot16, tracks=tr16, sid=0, maxlen_sectors=30)
            else:
                s0 = dm.gen_surface(rng, variant=variant, spt=spt, sid=0, maxlen_sectors=30)
            surfaces = [s0]
            if kind == 'inter':
                if variant == 'opus':
                    s1 = dm.gen_surface(rng, variant='opus', tracks=s0.tracks, sid=1, maxlen_sectors=30)
                else:
                    s1 = dm.gen_surface(rng, variant=rng.choice(['acorn', 'watford']), spt=spt,
                                        total=min(1023, s0.tracks * spt), tracks=s0.tracks, sid=1, maxlen_sectors=30)
                if spt == 16:
                    # the prober tells 16 from 18 sectors per track by where it finds the second side's catalogue: a
                    # 16-spt image whose side-1 sectors 2-3 look like a catalogue (a Watford second fragment, or a file
                    # body that happens to) is inherently ambiguous, so it is not generated
                    if s1.variant == 'watford':
                        s1 = dm.gen_surface(rng, variant='acorn', spt=spt, total=min(1023, s0.tracks * spt), tracks=s0.tracks,
                                            sid=1, maxlen_sectors=30)
                    for e in s1.volumes[0].cat.all_entries():
                        if e.length and e.start <= 3 < e.start + e.nsectors:
                            off = 3 * 256 + 5 - e.start * 256
                            if off < len(e.body):
                                b_ = bytearray(e.body)
                                b_[off] |= 1
                                e.body = bytes(b_)
                surfaces.append(s1)
                raw = dm.dsd_image(s0, s1)
                drives = [0, 2]
            else:
                raw = s0.image()
                drives = [0]
            path = os.path.join(tmp, 'c.%s' % dm.ext_for(s0, interleaved=(kind == 'inter')))
            write_file(path, raw)
            files = {os.path.basename(path): raw}
            res.seen('containers', os.path.splitext(path)[1])
            res.seen('geometries', '%dx%dx%d' % (len(surfaces), s0.tracks, s0.spt))
            for side, (s, drive) in enumerate(zip(surfaces, drives)):
                simg = s.image()
                allpts = [(t, x) for t in range(s.tracks) for x in range(s.spt)]
                pts = allpts if (tier == 'thorough' and idx % 10 == 0) else sample_addresses(rng, s.tracks, s.spt, nsamp)
                for (t, x) in pts:
                    lba = t * s.spt + x
                    probe(res, dfsbin, path, [], drive, t, x, simg[lba * 256:(lba + 1) * 256],
                          doc_offset(kind, side, s.tracks, s.spt, t, x), kind, files)
                    res.sigs.append('%s|%d|%d|%d|%d|%d' % (kind, s.tracks, s.spt, side, t, x))
                # beyond the surface
                for bad in ([str(drive), str(s.tracks), '0'], [str(drive), '0', str(s.spt)],
                            [str(drive), str(s.tracks - 1), str(s.spt)], [str(drive), '-1', '0'], [str(drive), '0', '-1'],
                            [str(drive), '4294967296', '0'], [str(drive), '0', '18446744073709551616'],
                            [str(drive), 'x', '0'], [str(drive), '0', '']):
                    must_fail(res, dfsbin, path, [], ['dump-sector'] + bad, 'dump-sector-out-of-range', files)
            # a drive where nothing is attached
            for d in (1, 3, 5):
                if d not in drives:
                    must_fail(res, dfsbin, path, [], ['dump-sector', str(d), '0', '0'], 'dump-sector-empty-drive', files)
            # truncated copy: sectors beyond EOF must fail, those before must still be right
            if variant != 'opus':
                total_sectors = len(raw) // 256
                cut = rng.randint(6, total_sectors - 1)
                partial = rng.choice([0, 0, 1, 128, 255])
                partial = [0, 1, 255, 128, partial][idx % 5]
                tpath = os.path.join(tmp, 't.%s' % dm.ext_for(s0, interleaved=(kind == 'inter')))
                traw = raw[:cut * 256 + partial]
                write_file(tpath, traw)
                tfiles = {os.path.basename(tpath): traw}
                res.add('truncated_images', 1)
                for side, (s, drive) in enumerate(zip(surfaces, drives)):
                    simg = s.image()
                    # always the sectors around the cut: the last complete one, the one that straddles the end of
                    # the file (partly stored: it must not be delivered) and the first one wholly beyond it
                    edge = [(t, x) for t in range(s.tracks) for x in range(s.spt)
                            if cut - 1 <= doc_offset(kind, side, s.tracks, s.spt, t, x) <= cut + 1]
                    res.add('sectors_probed_at_the_cut', len(edge))
                    for (t, x) in edge + sample_addresses(rng, s.tracks, s.spt, 6):
                        pos = doc_offset(kind, side, s.tracks, s.spt, t, x)
                        lba = t * s.spt + x
                        if pos < cut:
                            r_ = dfs(dfsbin, tpath, ['dump-sector', str(drive), str(t), str(x)])
                            res.execs += 1
                            if screen(res, r_, PROP, 'dump-sector-truncated', tfiles):
                                continue
                            if r_.rc == 0:
                                res.events += 1
                                if parse_hexdump(r_.out) != simg[lba * 256:(lba + 1) * 256]:
                                    res.violation('dump-sector-wrong-data:truncated', 'wrong data from truncated image',
                                                  {'run': r_.brief()}, tfiles, r_.argv)
                            # (a truncated image may legitimately be refused as a whole)
                        else:
                            must_fail(res, dfsbin, tpath, [], ['dump-sector', str(drive), str(t), str(x)],
                                      'read-past-eof', tfiles)
            res.sample = {'kind': kind, 'container': os.path.basename(path), 'surface': s0.describe()}
        elif kind == 'nocat':
            # a surface that holds no recognisable catalogue (blank second side of a dsd/ddd, an MMB slot marked
            # present whose image is not a DFS disc) is still attached: its sectors are at the documented offsets
            if idx % 2 == 0:
                spt = 10      # (a .ddd always has two candidate geometries, 16 and 18 sectors per track)
                # 80 tracks: the catalogue of side 0 alone then decides the geometry (with several candidate
                # geometries the prober insists on a catalogue on the second side and refuses the image)
                s0 = dm.gen_surface(rng, variant='acorn', spt=spt, sid=0, maxlen_sectors=10, tracks=80,
                                    total=rng.choice([800, 640, 401]) if spt == 10 else rng.choice([1023, 721, 900]))
                nonce = rng.getrandbits(16)
                blank = b''.join(dm.fingerprint(nonce, 1, l) for l in range(s0.nsectors))
                if rng.random() < 0.5:
                    blank = b'\xe5' * 512 + blank[512:]
                a = s0.image()
                tb = spt * 256
                raw = b''.join(a[t * tb:(t + 1) * tb] + blank[t * tb:(t + 1) * tb] for t in range(s0.tracks))
                path = os.path.join(tmp, 'n.%s' % dm.ext_for(s0, True))
                write_file(path, raw)
                files = {os.path.basename(path): raw}
                for (t, x) in sample_addresses(rng, s0.tracks, spt, 6):
                    lba = t * spt + x
                    probe(res, dfsbin, path, [], 2, t, x, blank[lba * 256:(lba + 1) * 256],
                          doc_offset('inter', 1, s0.tracks, spt, t, x), 'nocat-dsd-side1', files)
                    res.sigs.append('nocat|dsd|%d|%d|%d' % (spt, t, x))
                res.seen('containers', 'dsd-with-blank-side')
            else:
                base = rng.getrandbits(15)
                k = rng.choice([0, 1, 3, 200, 510])
                img_k = b''.join(dm.fingerprint(base, k % 16, l) for l in range(800))
                s_ok = dm.gen_surface(rng, variant='acorn', spt=10, total=800, tracks=80, nfiles=1, maxlen_sectors=2)
                other = (k + 1) % 511
                path = os.path.join(tmp, 'n.mmb')
                dm.mmb_file(path, {k: (rng.choice([0x00, 0x0F]), img_k), other: (0x0F, s_ok.image())})
                files = {'slots.txt': ('slot %d present without catalogue' % k).encode()}
                for (t, x) in sample_addresses(rng, 80, 10, 5):
                    lba = t * 10 + x
                    probe(res, dfsbin, path, ['--drive-first'], k, t, x, img_k[lba * 256:(lba + 1) * 256],
                          doc_offset('mmb', 0, 80, 10, t, x, slot=k), 'nocat-mmb-slot', files)
                    res.sigs.append('nocat|mmb|%d|%d|%d' % (k, t, x))
                res.seen('containers', 'mmb-slot-without-catalogue')
            res.sample = {'kind': kind}
        elif kind == 'twosided':
            # two-sided non-interleaved .ssd/.sdd: side 0 then side 1 (doc/dfs.1: "1 or 2 sides")
            spt = rng.choice([10, 18])
            tracks = rng.choice([35, 40, 80]) if spt == 10 else rng.choice([35, 40])
            lo = {(10, 35): 20, (10, 40): 351, (10, 80): 401, (18, 35): 40, (18, 40): 631}[(spt, tracks)]
            tot = rng.choice([tracks * spt, tracks * spt, rng.randint(lo, tracks * spt), tracks * spt - rng.randint(1, 10)])
            tot1 = rng.choice([tot, tracks * spt, rng.randint(lo, tracks * spt)])
            s0 = dm.gen_surface(rng, variant='acorn', spt=spt, total=tot, tracks=tracks, sid=0, maxlen_sectors=20)
            s1 = dm.gen_surface(rng, variant='acorn', spt=spt, total=tot1, tracks=tracks, sid=1, maxlen_sectors=20)
            raw = s0.image() + s1.image()
            path = os.path.join(tmp, 'two.%s' % dm.ext_for(s0))
            write_file(path, raw)
            files = {os.path.basename(path): raw}
            res.seen('containers', 'two-sided' + os.path.splitext(path)[1])
            simg0, simg1 = s0.image(), s1.image()
            for (t, x) in sample_addresses(rng, tracks, spt, 4):
                lba = t * spt + x
                probe(res, dfsbin, path, [], 0, t, x, simg0[lba * 256:(lba + 1) * 256],
                      doc_offset('twosided', 0, tracks, spt, t, x), 'twosided-side0', files)
                res.sigs.append('twosided|%d|%d|0|%d|%d' % (tracks, spt, t, x))
            # side 1 must be attached somewhere (drive 2 under the physical policy) and map to the second half
            r_ = dfs(dfsbin, path, ['dump-sector', '2', '0', '0'], trace=True)
            res.execs += 1
            res.events += 1
            if not screen(res, r_, PROP, 'dump-sector', files):
                got = parse_hexdump(r_.out) if r_.rc == 0 else None
                if got is None:
                    attached = [l for l in r_.trace.splitlines() if l.startswith('A ')]
                    res.violation(KNOWN_TWO_SIDED_SSD,
                                  'side 1 of a two-sided non-interleaved image is not attached to any drive',
                                  {'run': r_.brief(), 'attach_events': attached}, files, r_.argv)
                else:
                    for (t, x) in sample_addresses(rng, tracks, spt, 4):
                        lba = t * spt + x
                        probe(res, dfsbin, path, [], 2, t, x, simg1[lba * 256:(lba + 1) * 256],
                              doc_offset('twosided', 1, tracks, spt, t, x), 'twosided-side1', files)
            res.sample = {'kind': kind, 'container': os.path.basename(path)}
        elif kind == 'mmb':
            base = rng.getrandbits(15)
            slots = {}
            surf = {}
            fixed = [0, 1, 255, 256, 510]
            chosen = set(rng.sample(fixed, rng.randint(2, 5))) | set(rng.sample(range(511), rng.randint(2, 6)))
            for k in sorted(chosen):
                st = rng.choice([0x00, 0x0F, 0x00, 0x0F, 0xF0, 0xFF, rng.choice([0x01, 0x80, 0x10, 0xFE])])
                s = dm.gen_surface(rng, variant=rng.choice(['acorn', 'watford']), spt=10, total=800, tracks=80,
                                   sid=k % 16, nonce=(base + k) & 0xFFFF, maxlen_sectors=10, nfiles=rng.randint(0, 5))
                slots[k] = (st, s.image())
                surf[k] = (st, s)
            path = os.path.join(tmp, 'arch.mmb')
            dm.mmb_file(path, slots)
            files = {'slots.txt': repr({k: hex(v[0]) for k, v in slots.items()}).encode()}
            res.seen('containers', '.mmb')
            pre = ['--drive-first']
            for k, (st, s) in sorted(surf.items()):
                res.seen('mmb_status_bytes', st)
                res.seen('mmb_slots', k)
                simg = s.image()
                if st in (0x00, 0x0F):
                    for (t, x) in sample_addresses(rng, 80, 10, 3 if tier == 'quick' else 8)[:(3 if tier == 'quick' else 8)]:
                        lba = t * 10 + x
                        probe(res, dfsbin, path, pre, k, t, x, simg[lba * 256:(lba + 1) * 256],
                              doc_offset('mmb', 0, 80, 10, t, x, slot=k), 'mmb', files)
                        res.sigs.append('mmb|%d|%02x|%d|%d' % (k, st, t, x))
                    must_fail(res, dfsbin, path, pre, ['dump-sector', str(k), '80', '0'], 'dump-sector-out-of-range', files)
                    must_fail(res, dfsbin, path, pre, ['dump-sector', str(k), '79', '10'], 'dump-sector-out-of-range', files)
                else:
                    # unformatted / invalid / illegal status: no command may obtain data
                    rng.choice(range(5))
                    for cmd in (['dump-sector', str(k), '0', '0'], ['cat', str(k)], ['show-titles', str(k)],
                                ['info', ':%d.#.*' % k], ['dump-sector', str(k), '0', '2'], ['free', str(k)],
                                ['type', '--binary', ':%d.$.A' % k]):
                        must_fail(res, dfsbin, path, pre, cmd, 'mmb-unformatted-slot', files)
                        res.sigs.append('mmb-unformatted|%d|%02x|%s' % (k, st, cmd[0]))
            # show-titles without arguments walks every drive: the title of every formatted slot must appear
            r_ = dfs(dfsbin, path, ['show-titles'], pre=pre, timeout=120)
            res.execs += 1
            if not screen(res, r_, PROP, 'show-titles', files):
                res.events += 1
                for k, (st, s) in sorted(surf.items()):
                    if st in (0x00, 0x0F):
                        line = ('%d: %s\n' % (k, s.volumes[0].cat.title_str())).encode('latin1')
                        if line not in r_.out:
                            res.violation('mmb-formatted-slot-not-listed', 'show-titles does not list formatted slot %d '
                                          '(an unformatted slot precedes it: %s)' % (k, any(surf[j][0] not in (0, 15) for j in surf if j < k)),
                                          {'run': r_.brief(), 'slots': {j: '%02X' % surf[j][0] for j in surf}}, files, r_.argv)
                            break
            # a slot that is not in the table at all (status 0xFF, no data)
            free = [k for k in range(511) if k not in slots]
            k = rng.choice(free)
            must_fail(res, dfsbin, path, pre, ['dump-sector', str(k), '0', '0'], 'mmb-unformatted-slot', files)
            res.sample = {'kind': 'mmb', 'slots': {k: '%02X' % v[0] for k, v in slots.items()}}
    return res


def main(tier, seed, scale=1.0):
    BIN['san'] = build.ensure('san')
    q = tier == 'quick'
    counts = {'single': 60 if q else 500, 'inter': 60 if q else 500, 'twosided': 16 if q else 120, 'mmb': 16 if q else 120,
              'nocat': 16 if q else 160}
    specs = []
    for k, n in counts.items():
        specs += [(seed, k, i, tier) for i in range(max(1, int(n * scale)))]
    rule = ('one case = one container (ssd/sdd one side, dsd/ddd, two-sided ssd/sdd, mmb with a random slot subset and '
            'status bytes); dump-sector on boundary and random (track, sector) of every surface compared with the '
            'fingerprint of the sector at the documented offset and with the S/F hook records; out-of-range addresses, '
            'reads past the end of truncated files and unformatted MMB slots must fail; distinct = (container, '
            'geometry, side/slot, track, sector)')
    return run_check(PROP, 'exploration', case, specs, tier, seed, rule,
                     assumptions=['MMB drive numbers are taken under --drive-first (slot k = drive k)',
                                  '16 sectors per track is never chosen for sector dumps by the documented geometry '
                                  'preference, so 10 and 18 are covered',
                                  'wording of --show-config for unformatted slots is not judged'])
