"""C11 -- exit status 0 implies the output was completely written.

Fault enumeration over the byte offset at which the output device starts
refusing writes: regular file + RLIMIT_FSIZE (EFBIG at an exact offset),
pipe whose reader goes away (EPIPE), /dev/full (ENOSPC), and for the extract
commands per-file limits, destination entries that cannot be created and
symlinks to /dev/full.
"""
import fcntl
import os
import time
import random
import resource
import signal
import subprocess

from .. import build, discmodel as dm, basicgen as bg
from ..dfsutil import write_file
from ..execu import run, clean_failure_key, SAN_ENV
from ..runner import run_check, CaseResult, Scratch

PROP = 'C11'
BIN = {}


def make_disc(r, tmp):
    """a disc with text-like and binary files of several sizes"""
    ents = []
    pos = 2
    specs = [('$', 'TEXT', 3000), ('$', 'BIG', 20000), ('$', 'SMALL', 300), ('A', 'TINY', 5), ('B', 'EMPTY', 0),
             ('$', 'PAGE', 4096), ('$', 'PAGE1', 4097), ('$', 'PAGE2', 8192)]
    for i in range(12):
        specs.append((r.choice('$CD'), 'F%d' % i, r.choice([1, 100, 256, 700])))
    for d, nm, ln in specs:
        if nm in ('SMALL', 'PAGE1', 'F3', 'F7'):
            pos += r.choice([1, 2, 20, 40])          # leave free spans of several sizes between the files
        if nm in ('TEXT', 'BIG'):
            body = b''.join((b'line %d of the file %s\r' % (k, nm.encode())) for k in range(ln // 20))[:ln].ljust(ln, b'.')
        else:
            body = r.randbytes(ln)
        ents.append(dm.Entry(d, nm, False, 0x1900, 0x8023, ln, pos, body))
        pos += (ln + 255) // 256
    # a small file near the end: the last free span is short, the largest one lies in the middle
    assert pos < 390, pos
    ents.append(dm.Entry('$', 'TAIL', False, 0, 0, 256, 397, r.randbytes(256)))
    cat = dm.Cat(b'FAULTS', 0, 5, 2, 400, dm.catalogue_order(ents))
    s = dm.Surface('acorn', 40, 10, [dm.Volume(None, 0, 400, 0, cat)], 0x1234, 0)
    path = os.path.join(tmp, 'f.ssd')
    write_file(path, s.image())
    return path, s


DFS_CMDS = [
    ['cat'], ['info', '#.*'], ['type', 'TEXT'], ['type', '--binary', 'BIG'], ['list', 'TEXT'], ['dump', 'SMALL'],
    ['dump', 'BIG'], ['free'], ['space'], ['sector-map'], ['show-titles'], ['dump-sector', '0', '0', '1'], ['help'],
    ['help', 'cat'], ['type', '--binary', 'PAGE'], ['type', '--binary', 'PAGE1'], ['type', '--binary', 'PAGE2'],
    ['type', '--binary', 'A.TINY'], ['info', '$.TEXT'], ['list', 'BIG'],
]


def offsets(r, L, tier):
    if L <= 512 or (tier == 'thorough' and L <= 5000):
        o = set(range(0, L + 2))
    else:
        o = set(range(0, 65 if tier == 'thorough' else 9))
        for k in range(4096, L + 4096, 4096):
            for d in (-2, -1, 0, 1, 2):
                if 0 <= k + d <= L + 1:
                    o.add(k + d)
        o.update([L - 2, L - 1, L, L + 1])
        for _ in range(64 if tier == 'thorough' else 12):
            o.add(r.randrange(0, L + 1))
    return sorted(x for x in o if x >= 0)


def run_pipe_limit(argv, stdin, n, cwd=None):
    """stdout is a pipe of minimal capacity whose reader takes n bytes and
    then closes; SIGPIPE is ignored in the child so writes fail with EPIPE."""
    rd, wr = os.pipe()
    try:
        cap = fcntl.fcntl(wr, 1031, 4096)      # F_SETPIPE_SZ
    except OSError:
        cap = 65536
    env = dict(os.environ)
    env.update(SAN_ENV)

    def pre():
        resource.setrlimit(resource.RLIMIT_CORE, (0, 0))
        signal.signal(signal.SIGPIPE, signal.SIG_IGN)
    if n == 0:
        os.close(rd)          # no reader at all: every write is refused
        rd = None
    p = subprocess.Popen(argv, stdin=subprocess.PIPE, stdout=wr, stderr=subprocess.PIPE, env=env, cwd=cwd,
                         preexec_fn=pre, close_fds=True)
    os.close(wr)
    # standard input is fed from a thread: the tool may need it before it prints anything
    import threading

    def feed():
        try:
            if stdin:
                p.stdin.write(stdin)
            p.stdin.close()
        except (BrokenPipeError, OSError, ValueError):
            pass
    th = threading.Thread(target=feed, daemon=True)
    th.start()
    errbuf = []

    def drain():
        try:
            errbuf.append(p.stderr.read())
        except (OSError, ValueError):
            pass
    te = threading.Thread(target=drain, daemon=True)
    te.start()
    got = b''
    import select
    deadline = time.time() + 30
    to = False
    while rd is not None and len(got) < n:
        left = deadline - time.time()
        if left <= 0:
            to = True
            break
        rl, _, _ = select.select([rd], [], [], left)
        if not rl:
            to = True
            break
        c = os.read(rd, n - len(got))
        if not c:
            break
        got += c
    if rd is not None:
        os.close(rd)
    try:
        p.wait(timeout=max(1, deadline - time.time()))
    except subprocess.TimeoutExpired:
        to = True
    if to:
        p.kill()
        p.wait()
    th.join(2)
    te.join(2)
    err = errbuf[0] if errbuf else b''
    return p.returncode, got, err, cap, to


def judge(res, what, mode, n, L, rc, err, out_ok, argv, files, timed_out=False, report=None):
    res.events += 1
    tag = '%s:%s' % (what.split()[0], mode)
    if timed_out:
        res.violation('hang:' + tag, 'hang with a failing output device', {'n': n, 'L': L}, files, argv)
        return
    if report:
        res.violation('%s:%s' % (tag, report), 'unclean termination with a failing output device',
                      {'n': n, 'L': L, 'stderr': err[:600]}, files, argv)
        return
    if n < L:
        if rc == 0:
            res.violation('exit0-after-failed-write:' + tag,
                          '%s: the output device refused writes from byte %d of %d but the exit status is 0' % (what, n, L),
                          {'n': n, 'L': L, 'stderr': err[:300]}, files, argv)
        elif not err.strip():
            res.violation('silent-failure:' + tag, '%s: failed write reported by status %d but no diagnostic' % (what, rc),
                          {'n': n, 'L': L}, files, argv)
    else:
        if rc != 0 or not out_ok:
            res.violation('fault-free-run-failed:' + tag, '%s: limit %d >= output length %d but status %d / output differs'
                          % (what, n, L, rc), {'n': n, 'L': L, 'stderr': err[:300]}, files, argv)


def case(spec):
    seed, tool, ci, mode, variant, tier = spec
    r = random.Random('%s/C11/%r' % (seed, spec))
    res = CaseResult()
    with Scratch('c11') as tmp:
        if tool == 'dfs':
            path, surf = make_disc(r, tmp)
            cmd = DFS_CMDS[ci]
            argv = [BIN[variant]['dfs'], '--file', path] + cmd
            stdin = b''
            files = {'f.ssd': open(path, 'rb').read()}
        else:
            d = bg.DIALECTS[ci % len(bg.DIALECTS)]
            if ci % 6 == 3:
                d = '6502'        # --dialect=help prints the list and then lists with the default dialect
            rr = random.Random(ci)
            prog, _ = bg.gen_prog(rr, d, maxlines=[3, 40, 200, 600][ci % 4], long_lines=True)
            ppath = os.path.join(tmp, 'p.bbc')
            write_file(ppath, prog)
            if ci % 5 == 4 and d in ('Z80', '8086', 'Windows', 'SDL', 'MacOSX'):
                prog = prog + bytes(rr.getrandbits(8) for _ in range(rr.choice([1, 3, 40])))   # stray bytes after the end marker
                write_file(ppath, prog)
            kinds = [['--dialect=' + d, ppath], ['--dialect=' + d, '-'], ['--help'], ['--dialect=help', ppath], ['-D', '-'],
                     ['--dialect=' + d, '--listo=0', ppath, ppath]]
            cmd = kinds[ci % len(kinds)]
            argv = [BIN[variant]['basic']] + cmd
            stdin = prog
            files = {'p.bbc': prog}
        what = '%s %s' % (tool, ' '.join(cmd if tool == 'dfs' else cmd[:1]))
        base = run(argv, stdin=stdin, cwd=tmp)
        res.execs += 1
        if clean_failure_key(base, (0,)) or base.rc != 0:
            res.violation('fault-free-run-failed:' + what.split()[1] if len(what.split()) > 1 else 'x',
                          'command fails without any fault', base.brief(), files, argv)
            return res
        L = len(base.out)
        res.seen('commands', what)
        res.seen('output_lengths', L)
        if mode == 'fsize':
            outp = os.path.join(tmp, 'stdout.bin')
            for n in offsets(r, L, tier):
                r_ = run(argv, stdin=stdin, cwd=tmp, fsize=n, stdout_file=outp)
                res.execs += 1
                rep = clean_failure_key(r_, (0, 1, 2))
                judge(res, what, 'file', n, L, r_.rc, r_.err, r_.out == base.out, argv, files, r_.timed_out, rep)
                res.sigs.append('%s|fsize|%d' % (what, n))
                res.seen('failure_offsets', n)
        elif mode == 'pipe':
            # reader absent from the start
            rc, got, err, cap, to = run_pipe_limit(argv, stdin, 0, cwd=tmp)
            res.execs += 1
            if L > 0:
                judge(res, what, 'pipe', 0, L, rc, err, True, argv, files, to,
                      'signal' if (rc is not None and rc < 0) else None)
                res.sigs.append('%s|pipe|0' % what)
            for n in [x for x in offsets(r, L, tier) if x + cap + 64 < L][:(12 if tier == 'quick' else 80)]:
                rc, got, err, cap, to = run_pipe_limit(argv, stdin, n, cwd=tmp)
                res.execs += 1
                judge(res, what, 'pipe', n, L, rc, err, True, argv, files, to,
                      'signal' if (rc is not None and rc < 0) else None)
                if got != base.out[:len(got)]:
                    res.violation('pipe-data-corrupt', 'bytes delivered before the failure differ', {'n': n}, files, argv)
                res.sigs.append('%s|pipe|%d' % (what, n))
        elif mode == 'devfull':
            if L > 0:
                with open('/dev/full', 'wb') as full:
                    env = dict(os.environ)
                    env.update(SAN_ENV)
                    p = subprocess.Popen(argv, stdin=subprocess.PIPE, stdout=full, stderr=subprocess.PIPE, env=env, cwd=tmp)
                    try:
                        _, err = p.communicate(stdin, timeout=30)
                        to = False
                    except subprocess.TimeoutExpired:
                        p.kill()
                        _, err = p.communicate()
                        to = True
                res.execs += 1
                judge(res, what, 'devfull', 0, L, p.returncode, err, True, argv, files, to,
                      'signal' if p.returncode < 0 else None)
                res.sigs.append('%s|devfull' % what)
        if not res.sample:
            res.sample = {'command': what, 'mode': mode, 'output_length': L, 'build': variant}
    return res


def extract_case(spec):
    seed, kind, idx, variant, tier = spec
    r = random.Random('%s/C11x/%r' % (seed, spec))
    res = CaseResult()
    with Scratch('c11x') as tmp:
        path, surf = make_disc(r, tmp)
        files = {'f.ssd': open(path, 'rb').read()}
        ents = surf.volumes[0].cat.entries
        cmd = 'extract-files' if idx % 2 == 0 else 'extract-unused'
        dest = os.path.join(tmp, 'out')
        os.mkdir(dest)
        argv = [BIN[variant]['dfs'], '--file', path, cmd, dest]
        what = 'dfs ' + cmd
        res.seen('commands', what)
        if kind == 'fsize':
            # the largest output file decides; stdout goes to a pipe (not limited)
            if cmd == 'extract-files':
                sizes = sorted(set(e.length for e in ents))
                biggest = max(sizes)
            else:
                from .. import refmodel as rm_
                runs = rm_.unused_runs(surf)
                biggest = 256 * max(c for _, c in runs)
                res.seen('unused_spans', len(runs))
            cands = [0, 1, 4, 255, 256, 257, 4095, 4096, 4097, 8191, 8192, 8193, biggest - 1, biggest - 4096, biggest // 2] + \
                    [r.randrange(0, biggest) for _ in range(6 if tier == 'quick' else 40)]
            for n in sorted(set(c for c in cands if 0 <= c < biggest)):
                for f in os.listdir(dest):
                    os.unlink(os.path.join(dest, f))
                r_ = run(argv, cwd=tmp, fsize=n)
                res.execs += 1
                rep = clean_failure_key(r_, (0, 1, 2))
                judge(res, what, 'outfile-fsize', n, biggest, r_.rc, r_.err, True, argv, files, r_.timed_out, rep)
                res.sigs.append('%s|fsize|%d' % (cmd, n))
                res.seen('failure_offsets', n)
            for f in os.listdir(dest):
                os.unlink(os.path.join(dest, f))
            r_ = run(argv, cwd=tmp, fsize=biggest + 4096)
            res.execs += 1
            judge(res, what, 'outfile-fsize', biggest + 4096, biggest, r_.rc, r_.err, True, argv, files, r_.timed_out,
                  clean_failure_key(r_, (0, 1, 2)))
        elif kind == 'obstacle':
            # one output name cannot be created: a directory is in the way, or it is a symlink to /dev/full
            if cmd == 'extract-files':
                e = r.choice([x for x in ents if x.dir == '$'])
                victim = e.name + r.choice(['', '.inf'])
                size = e.length if not victim.endswith('.inf') else 30
            else:
                from .. import refmodel as rm_
                runs = rm_.unused_runs(surf)
                victim = 'unused_%03X.bin' % r.choice(runs)[0]
                size = 1000
            how = r.choice(['dir', 'devfull', 'dangling'])
            vp = os.path.join(dest, victim)
            if how == 'dir':
                os.mkdir(vp)
            elif how == 'devfull':
                os.symlink('/dev/full', vp)
            else:
                os.symlink(os.path.join(tmp, 'no', 'such', 'dir', 'x'), vp)
            if how == 'devfull' and size == 0:
                return res
            r_ = run(argv, cwd=tmp)
            res.execs += 1
            judge(res, what, 'obstacle-' + how, 0, 1, r_.rc, r_.err, True, argv, files, r_.timed_out,
                  clean_failure_key(r_, (0, 1, 2)))
            res.sigs.append('%s|%s|%s' % (cmd, how, victim))
        elif kind == 'nodest':
            bad = r.choice([os.path.join(tmp, 'missing'), os.path.join(tmp, 'missing') + '/', path, '/dev/null'])
            argv = argv[:-1] + [bad]
            r_ = run(argv, cwd=tmp)
            res.execs += 1
            judge(res, what, 'no-destination', 0, 1, r_.rc, r_.err, True, argv, files, r_.timed_out,
                  clean_failure_key(r_, (0, 1, 2)))
            res.sigs.append('%s|nodest|%s' % (cmd, os.path.basename(bad.rstrip('/'))))
        res.sample = {'command': what, 'mode': kind, 'build': variant}
    return res


def dispatch(spec):
    if spec[1] == 'X':
        return extract_case((spec[0],) + spec[2:])
    return case(spec)


def main(tier, seed, scale=1.0):
    BIN.update(build.ensure_many(['rel', 'san']))
    specs = []
    q = tier == 'quick'
    for ci in range(len(DFS_CMDS)):
        for mode in ('fsize', 'pipe', 'devfull'):
            for variant in (['rel'] if q and ci % 3 else ['rel', 'san']):
                specs.append((seed, 'dfs', ci, mode, variant, tier))
    for ci in range(30 if q else 240):
        for mode in ('fsize', 'pipe', 'devfull'):
            specs.append((seed, 'basic', ci, mode, 'rel' if ci % 2 else 'san', tier))
    for i in range(8 if q else 300):
        for kind in ('fsize', 'obstacle', 'nodest'):
            specs.append((seed, 'X', kind, i, 'rel' if i % 2 else 'san', tier))
    if scale < 1:
        specs = specs[::max(1, int(1 / scale))]
    rule = ('one case = one command of dfs or bbcbasic_to_text under one fault mode: RLIMIT_FSIZE on a regular-file stdout '
            'at every offset 0..L for short outputs, else 0..8 (0..64 thorough), every multiple of 4096 +-2, L-2..L+1 and '
            'random offsets; a 4096-byte pipe whose reader leaves after n bytes; /dev/full; for extract-files / '
            'extract-unused RLIMIT_FSIZE below the largest output file, an output name occupied by a directory / symlink '
            'to /dev/full / dangling symlink, and missing destinations; distinct = (command, mode, offset)')
    return run_check(PROP, 'fault_enumeration', dispatch, specs, tier, seed, rule,
                     assumptions=['a pipe offset n is only judged when the output exceeds n + pipe capacity, so that '
                                  'some write is certain to be refused',
                                  'stderr is a pipe and is never limited'])
