"""C08 -- bbcbasic_to_text fails cleanly on arbitrary input files and options.

Monitors: ASan+UBSan build (signals, reports, status, RET hook record,
diagnostic), MemorySanitizer build (uninitialised option state), pattern-
initialised build vs the release build (behaviour must not depend on
uninitialised locals), valgrind memcheck on the release build (sampled).
"""
import os
import random
import shutil

from .. import build, basicgen as bg, basicref as br
from ..execu import run, clean_failure_key, hang_budget, note_hang, arm_hang_flag
from ..runner import run_check, CaseResult, Scratch

PROP = 'C08'
BIN = {}

BAD_LISTO = ['8', '-1', 'abc', '', '7x', '99999999999999999999', ' 3', '0x3', '3.0', '-0']


def hostile_input(r):
    k = r.random()
    if k < 0.25:
        return bytes(r.getrandbits(8) for _ in range(r.choice([0, 1, 2, 3, 4, 5, 10, 50, 300, r.randrange(0, 2000)])))
    d = r.choice(bg.DIALECTS)
    prog, _ = bg.gen_prog(r, d, maxlines=r.choice([3, 10, 40]), long_lines=r.random() < 0.3)
    b = bytearray(prog)
    if k < 0.5 and b:
        for _ in range(r.choice([1, 1, 2, 4, 16])):
            op = r.random()
            pos = r.randrange(len(b)) if b else 0
            if op < 0.5 and b:
                b[pos] = r.choice([0, 0x0D, 0xFF, 0x8D, 0xC6, 0xC7, 0xC8, 0x22, 3, 4, 255, r.getrandbits(8)])
            elif op < 0.75:
                b[pos:pos] = bytes(r.getrandbits(8) for _ in range(r.choice([1, 2, 255])))
            elif b:
                del b[pos:pos + r.choice([1, 2, 5])]
        return bytes(b)
    if k < 0.7:
        return bytes(b[:r.randrange(0, len(b) + 1)])
    if k < 0.8:
        # huge line lengths / lines of 255 bytes of one token
        t = r.choice([0x8D, 0xC6, 0xC8, 0x22, 0xE3, 0xED, 0xF5, 0xFD, 0x01, 0x18])
        body = bytes([t]) * r.choice([1, 2, 3, 4, 250, 251])
        if r.random() < 0.5:
            return bytes([0x0D, 0, 1, (len(body) + 4) & 0xFF]) + body + b'\x0d\xff'
        return bytes([(len(body) + 4) & 0xFF, 1, 0]) + body + b'\x0d\x00\xff\xff'
    if k < 0.9:
        # many nested closers (indentation underflow) or many unclosed openers over several lines (indentation
        # grows without bound: hundreds of levels are carried into the following lines), in both framings
        t = r.choice([0xED, 0xFD, 0xE3, 0xF5, 0xE3, 0xF5])
        body = bytes([t]) * r.choice([5, 100, 250])
        if r.random() < 0.3:
            body = bytes(r.choice([0xE3, 0xF5, t]) for _ in range(len(body)))
        n = r.choice([1, 3, 30])
        if r.random() < 0.7:
            return (bytes([0x0D, 0, 1, len(body) + 4]) + body) * n + b'\x0d\xff'
        return (bytes([len(body) + 4, 1, 0]) + body + b'\x0d') * n + b'\x00\xff\xff'
    return bytes(b) + bytes(r.getrandbits(8) for _ in range(r.randrange(0, 40)))


def command_line(r, tmp, data):
    """-> (argv tail, stdin bytes, description)"""
    k = r.random()
    path = os.path.join(tmp, 'in.bbc')
    with open(path, 'wb') as f:
        f.write(data)
    opts = []
    desc = []
    # dialect
    q = r.random()
    if q < 0.25:
        desc.append('no-dialect')
    elif q < 0.85:
        d = r.choice(bg.DIALECTS)
        opts += r.choice([['--dialect=' + d], ['-d', d], ['--dialect', d]])
    elif q < 0.91:
        opts += ['--dialect=' + r.choice(['', 'bogus', '6502 ', 'arm', 'help', 'HELP', 'Z80\n'])]
        desc.append('bad-dialect')
    else:
        # the option given several times, --dialect=help before / after a real dialect
        d1, d2 = r.choice(bg.DIALECTS), r.choice(bg.DIALECTS)
        opts += r.choice([['--dialect=' + d1, '--dialect=' + d2], ['--dialect=' + d1, '--dialect=help'],
                          ['--dialect=help', '--dialect=' + d1], ['--dialect=' + d1, '--dialect=help', '--dialect=' + d2],
                          ['-d', d1, '-d', 'help']])
        desc.append('repeated-dialect')
    q = r.random()
    if q < 0.3:
        pass
    elif q < 0.85:
        n = r.randrange(8)
        opts += r.choice([['--listo=%d' % n], ['-l', str(n)], ['--listo', str(n)]])
    else:
        opts += ['--listo=' + r.choice(BAD_LISTO)]
        desc.append('bad-listo')
    q = r.random()
    stdin = b''
    if q < 0.45:
        inputs = [path]
    elif q < 0.75:
        inputs = ['-']
        stdin = data
    elif q < 0.85:
        p2 = os.path.join(tmp, 'in2.bbc')
        with open(p2, 'wb') as f:
            f.write(hostile_input(r))
        inputs = r.choice([[path, p2], [p2, path, p2], ['-', path], [path, '-', p2], ['-', '-'],
                           [os.path.join(tmp, 'missing'), path], [path, os.path.join(tmp, 'missing')], [tmp, path]])
        stdin = data
        desc.append('multi')
    elif q < 0.9:
        inputs = []
        desc.append('no-input')
    elif q < 0.95:
        inputs = r.choice([['--help'], ['--bogus', path], ['-x', path], ['--listo'], ['-d'], ['-D', '-'], ['--dump-token-maps'],
                           ['--help', '--bogus'], ['--', path], ['--', '-x'], ['-D', 'ARM'], ['-D', 'bogus']])
        desc.append('odd-options')
    else:
        inputs = [os.path.join(tmp, 'missing'), tmp]
        desc.append('unreadable')
    if r.random() < 0.1:
        # options after the first input: getopt stops at the first non-option ('+')
        inputs = inputs + ['--listo=3']
    return opts + inputs, stdin, '+'.join(desc) or 'plain'


def norm(r_):
    """stdout with the program's own path (printed by --help) made build-independent"""
    return r_.out.replace(r_.argv[0].encode() if not r_.argv[0].endswith('valgrind') else b'', b'PROG') \
        if r_.argv[0].encode() in r_.out else r_.out


def case(spec):
    seed, idx, tier = spec
    r = random.Random('%s/C08/%d' % (seed, idx))
    res = CaseResult()
    with Scratch('c08') as tmp:
        for rep in range(12):
            data = hostile_input(r)
            tail, stdin, desc = command_line(r, tmp, data)
            files = {'in.bbc': data}
            # --- monitor 1: sanitizer build, with the returned-from-main record
            r_ = run([BIN['san']['basic']] + tail, stdin=stdin, trace=True, timeout=hang_budget(), cwd=tmp, max_output=8 << 20)
            res.execs += 1
            res.events += 1
            k = clean_failure_key(r_, (0, 1))
            res.sigs.append('%s|%d|%d' % (desc, len(data), hash(tuple(tail[:-1])) % 100000))
            res.seen('command_line_kinds', desc)
            res.seen('exit_statuses', r_.rc)
            if k:
                if k.startswith('hang'):
                    note_hang()
                res.violation('san:' + k, 'unclean termination (%s)' % k, r_.brief(), files, r_.argv)
                if k.startswith('hang'):
                    continue        # the other builds would only hang too
            else:
                if ('RET %d' % r_.rc) not in r_.trace:
                    res.violation('no-return-from-main', 'process exited %d without returning from main' % r_.rc,
                                  {'trace': r_.trace[-200:], 'run': r_.brief()}, files, r_.argv)
                if r_.rc != 0 and not r_.err.strip():
                    res.violation('silent-failure', 'exit status %d with empty stderr' % r_.rc, r_.brief(), files, r_.argv)
            # --- monitor 2: MemorySanitizer (everything in the C tool is instrumented)
            m_ = run([BIN['msan']['basic']] + tail, stdin=stdin, timeout=hang_budget(), cwd=tmp, max_output=8 << 20)
            res.execs += 1
            res.add('msan_runs', 1)
            km = clean_failure_key(m_, (0, 1))
            if km:
                res.violation('msan:' + km, 'MemorySanitizer build: %s' % km, m_.brief(), files, m_.argv)
            elif not k and (m_.rc, norm(m_)) != (r_.rc, norm(r_)):
                res.violation('msan-vs-asan-differ', 'two instrumented builds of the same tree disagree',
                              {'asan': r_.brief(), 'msan': m_.brief()}, files, m_.argv)
            # --- monitor 3: pattern-initialised locals vs release
            a_ = run([BIN['rel']['basic']] + tail, stdin=stdin, timeout=hang_budget(), cwd=tmp, max_output=8 << 20)
            b_ = run([BIN['pattern']['basic']] + tail, stdin=stdin, timeout=hang_budget(), cwd=tmp, max_output=8 << 20)
            res.execs += 2
            res.add('pattern_pairs', 1)
            ka, kb = clean_failure_key(a_, (0, 1)), clean_failure_key(b_, (0, 1))
            if ka or kb:
                res.violation('rel:' + str(ka or kb), 'release / pattern build: unclean termination',
                              {'rel': a_.brief(), 'pattern': b_.brief()}, files, (a_ if ka else b_).argv)
            elif (a_.rc, norm(a_)) != (b_.rc, norm(b_)):
                res.violation('uninitialised-dependence', 'output changes when uninitialised locals are pattern-filled',
                              {'rel': a_.brief(), 'pattern': b_.brief()}, files, a_.argv)
            # --- monitor 4: memcheck, sampled
            if VALGRIND and r.random() < (0.012 if tier == 'quick' else 0.02):
                v_ = run([VALGRIND, '-q', '--error-exitcode=99', '--track-origins=no', BIN['rel']['basic']] + tail,
                         stdin=stdin, timeout=120, cwd=tmp)
                res.execs += 1
                res.add('memcheck_runs', 1)
                if v_.rc == 99 or b'== Invalid' in v_.err or b'uninitialised' in v_.err:
                    res.violation('memcheck', 'valgrind memcheck reports an error on the release build',
                                  v_.brief(), files, v_.argv)
            if rep == 0 and idx < 30:
                res.sample = {'argv_tail': tail, 'input_hex': data[:60].hex(), 'kind': desc, 'exit': r_.rc}
    return res


VALGRIND = shutil.which('valgrind')


def main(tier, seed, scale=1.0):
    b = build.ensure_many(['san', 'msan', 'rel', 'pattern'])
    BIN.update(b)
    n = int((800 if tier == 'quick' else 20000) * scale)
    specs = [(seed, i, tier) for i in range(n)]
    rule = ('one case = 12 (input, command line) pairs: random bytes, mutated / truncated / extended generated '
            'programs, degenerate lines; 10 dialect names or none, LISTO 0-7 or invalid, file / stdin / several files '
            '/ missing files / directories / unknown options / --help / -D; each pair runs on the ASan+UBSan build '
            '(signal, report, status in {0,1}, RET hook record, diagnostic on failure), the MSan build, the release '
            'and pattern-init builds (outputs must agree) and, sampled, under valgrind memcheck; distinct = '
            '(command-line kind, input length, options)')
    flag = arm_hang_flag()
    try:
        return run_check(PROP, 'exploration', case, specs, tier, seed, rule,
                         assumptions=['environment faults (ENOMEM, EIO) are out of scope; write faults are C11'])
    finally:
        if os.path.exists(flag):
            os.unlink(flag)
