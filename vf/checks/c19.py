"""C19 -- behaviour does not depend on whether assertions are compiled in.

Differential monitor over four builds of the same tree: rel (NDEBUG, the
pinned configuration), dbg (the documented default build, assertions on),
asserteval (assert expressions evaluated but never fatal) and pattern (NDEBUG
with uninitialised locals pattern-filled).  On every input and command line
(stdout, exit status) must agree, except that dbg may stop on a failed
assertion.
"""
import os
import random
import re

from .. import build, basicgen as bg, hostile
from ..dfsutil import case_rng, make_image, write_file
from ..execu import run, clean_failure_key
from ..runner import run_check, CaseResult, Scratch
from . import c08

PROP = 'C19'
BIN = {}
VARIANTS = ['rel', 'dbg', 'asserteval', 'pattern']


def outcome(r_):
    prog = r_.argv[0].encode()
    out = r_.out.replace(prog, b'PROG')
    if r_.timed_out:
        return ('timeout', None)
    return (r_.rc, out)


def assertion_stop(r_):
    return r_.rc is not None and r_.rc < 0 and re.search(rb"Assertion [`'].*' failed", r_.err) is not None


def wd():
    flag = os.environ.get('VERIF_HANGFLAG')
    return 4 if (flag and os.path.exists(flag)) else 12


def compare(res, tool, tail, stdin, cwd, files, what):
    runs = {}
    for v in VARIANTS:
        runs[v] = run([BIN[v][tool]] + tail, stdin=stdin, cwd=cwd, timeout=wd())
        res.execs += 1
    res.events += 1
    oc = {v: outcome(r_) for v, r_ in runs.items()}
    rel = oc['rel']
    if rel[0] == 'timeout' or oc['dbg'][0] == 'timeout':
        flag = os.environ.get('VERIF_HANGFLAG')
        if rel[0] != oc['dbg'][0] and not assertion_stop(runs['dbg']):
            if flag:
                open(flag, 'w').close()
            res.violation('ndebug-differs:hang:%s' % what, 'one build does not terminate where the other does (rel %r, dbg %r)'
                          % (rel[0], oc['dbg'][0]), {'rel': runs['rel'].brief(), 'dbg': runs['dbg'].brief()}, files, runs['rel'].argv)
        return
    for v in ('asserteval', 'dbg', 'pattern'):
        if oc[v] == rel:
            continue
        if v == 'dbg' and assertion_stop(runs['dbg']):
            res.add('dbg_stopped_on_assertion', 1)
            continue
        if v == 'pattern' and runs['pattern'].rc is not None and runs['pattern'].rc < 0 and runs['rel'].rc is not None \
                and runs['rel'].rc >= 0:
            key = 'uninitialised-dependence:crash:%s' % what
        elif v == 'pattern':
            key = 'uninitialised-dependence:%s' % what
        elif v == 'asserteval':
            key = 'side-effect-in-assert:%s' % what
        else:
            key = 'ndebug-differs:%s' % what
        res.violation(key, 'NDEBUG build and %s build disagree (%s: status %r vs %r)' % (v, what, rel[0], oc[v][0]),
                      {'rel': runs['rel'].brief(), v: runs[v].brief()}, files, runs[v].argv)
    for v, r_ in runs.items():
        if v == 'dbg' and assertion_stop(r_):
            continue
        k = clean_failure_key(r_, (0, 1, 2))
        if k and not k.startswith('hang'):
            res.add('unclean_terminations_seen', 1)      # C07/C08 matter; counted here as evidence


def case(spec):
    seed, kind, idx, tier = spec
    rng = case_rng(seed, PROP, (kind, idx))
    res = CaseResult()
    with Scratch('c19') as tmp:
        dest = os.path.join(tmp, 'dest')
        os.mkdir(dest)
        if kind == 'dfs-valid' and idx % 4 == 3:
            # titles and names with control characters (TAB, BEL, ESC ...): cat must lay them out identically in
            # every build, whatever column they land on
            from .. import discmodel as dm
            ctl = '\t\t\t\x07\x1b\x0c\x01AB'
            variant = rng.choice(['acorn', 'watford'])
            first = 4 if variant == 'watford' else 2
            ents = []
            seen = set()
            for i in range(rng.randint(2, 31)):
                nm = ''.join(rng.choice(ctl) if rng.random() < 0.4 else rng.choice('XYZ12') for _ in range(rng.randint(1, 7)))
                d = rng.choice('$$A\t')
                if (d, nm.lower()) in seen:
                    continue
                seen.add((d, nm.lower()))
                ents.append(dm.Entry(d, nm, rng.random() < 0.3, 0, 0, 10, first + i, b'0123456789'))
            tl = rng.randint(0, 12)
            title = ''.join(rng.choice('\t\t\x07T1') for _ in range(tl)).encode('latin1')
            if variant == 'watford':
                k = len(ents) // 2
                cat = dm.Cat(title, 0, rng.getrandbits(8), 1, 400, dm.catalogue_order(ents[:k]), dm.catalogue_order(ents[k:]))
            else:
                cat = dm.Cat(title, 0, rng.getrandbits(8), 1, 400, dm.catalogue_order(ents))
            surf = dm.Surface(variant, 40, 10, [dm.Volume(None, 0, 400, 0, cat)], rng.getrandbits(16), 0)
            path = os.path.join(tmp, 'ctl.ssd')
            raw = surf.image()
            write_file(path, raw)
            files = {'ctl.ssd': raw}
            for ui in (None, 'acorn', 'watford', 'opus'):
                for dopt in ([], ['--dir', 'A'], ['--dir', '\t']):
                    pre = (['--ui', ui] if ui else []) + dopt
                    compare(res, 'dfs', pre + ['--file', path, 'cat'], b'', tmp, files, 'dfs:cat-control-chars')
                    res.sigs.append('dfs-ctl|%s|%s|%d' % (ui, ''.join(dopt), idx))
            compare(res, 'dfs', ['--file', path, 'info', '#.*'], b'', tmp, files, 'dfs:info-control-chars')
            compare(res, 'dfs', ['--file', path, 'show-titles'], b'', tmp, files, 'dfs:show-titles-control-chars')
            res.sample = {'kind': kind, 'image': 'ctl.ssd', 'title': repr(title)}
        elif kind == 'dfs-valid':
            img = make_image(rng, tmp, maxlen_sectors=12)
            files = {os.path.basename(img.path): open(img.path, 'rb').read()} if os.path.getsize(img.path) < 2000000 else {}
            cmds = []
            for s, d in zip(img.surfaces, img.drives):
                for v in s.volumes[:2]:
                    dv = '%d%s' % (d, v.label or '')
                    cmds += [['cat', dv], ['info', ':%s.#.*' % dv], ['free', dv], ['space', dv]]
                    ents = v.cat.all_entries()
                    for e in rng.sample(ents, min(2, len(ents))):
                        cmds.append([rng.choice(['type', 'dump', 'list']), ':%s.%s.%s' % (dv, e.dir, e.name)])
                cmds += [['sector-map', str(d)], ['dump-sector', str(d), '0', '1'], ['show-titles']]
            rng.shuffle(cmds)
            for cmd in cmds[:6]:
                compare(res, 'dfs', ['--file', img.path] + cmd, b'', tmp, files, 'dfs:' + cmd[0])
                res.sigs.append('dfs-valid|%s|%d' % (' '.join(cmd)[:24], idx))
            res.sample = {'kind': kind, 'image': os.path.basename(img.path)}
        elif kind == 'dfs-hostile':
            b = hostile.base_image(rng, hostile.EXTS[idx % len(hostile.EXTS)])
            for rep in range(2):
                data, how = hostile.mutate(rng, b)
                name = 'h.' + b['ext']
                if rng.random() < 0.25:
                    data, gh = hostile.gz_wrap(rng, data)
                    how += '+' + gh
                    name += '.gz'
                path = os.path.join(tmp, name)
                write_file(path, data)
                files = {name: data} if len(data) < 2000000 else {}
                for c in range(3):
                    pre, args = hostile.command_line(rng, b['info'])
                    args = [dest if a == '@DEST@' else a for a in args]
                    for f in os.listdir(dest):
                        os.unlink(os.path.join(dest, f))
                    compare(res, 'dfs', pre + ['--file', path] + args, b'', tmp, files,
                            'dfs:%s:%s' % (b['ext'] + ('.gz' if name.endswith('.gz') else ''), args[0] if args else 'none'))
                    res.sigs.append('dfs-hostile|%s|%s|%s|%d' % (name, how.split(':')[0], ' '.join(args)[:20], idx))
            res.sample = {'kind': kind, 'ext': b['ext'], 'mutation': how}
        elif kind == 'basic-valid':
            r = random.Random('%s/C19b/%d' % (seed, idx))
            d = bg.DIALECTS[idx % len(bg.DIALECTS)]
            prog, lines = bg.gen_prog(r, d, maxlines=12, long_lines=True)
            p = os.path.join(tmp, 'p.bbc')
            write_file(p, prog)
            files = {'p.bbc': prog}
            for listo in r.sample(range(8), 2):
                for tail in ([['--dialect=' + d, '--listo=%d' % listo, p]] +
                             ([[p], ['--listo=%d' % listo, '-']] if d in ('6502', '32000') else [])):
                    compare(res, 'basic', tail, prog, tmp, files, 'basic:' + ('default-dialect' if not tail[0].startswith('--dialect') else d))
                    res.sigs.append('basic-valid|%s|%d|%d|%d' % (d, listo, len(tail), idx))
            # the default dialect applied to a program of any dialect: same in every build
            compare(res, 'basic', [p], prog, tmp, files, 'basic:default-dialect')
            res.sample = {'kind': kind, 'dialect': d, 'program_hex': prog[:60].hex()}
        else:
            r = random.Random('%s/C19h/%d' % (seed, idx))
            for rep in range(6):
                data = c08.hostile_input(r)
                tail, stdin, desc = c08.command_line(r, tmp, data)
                files = {'in.bbc': data}
                compare(res, 'basic', tail, stdin, tmp, files, 'basic:' + desc)
                res.sigs.append('basic-hostile|%s|%d|%d|%d' % (desc, len(data), rep, idx))
            res.sample = {'kind': kind, 'last_command_line': tail, 'input_hex': data[:40].hex()}
    return res


def main(tier, seed, scale=1.0):
    BIN.update(build.ensure_many(VARIANTS))
    flag = '/dev/shm/verif-hangflag-%d' % os.getpid()
    if os.path.exists(flag):
        os.unlink(flag)
    os.environ['VERIF_HANGFLAG'] = flag
    q = tier == 'quick'
    counts = {'dfs-valid': 60 if q else 1500, 'dfs-hostile': 210 if q else 6000, 'basic-valid': 100 if q else 3000,
              'basic-hostile': 150 if q else 4000}
    specs = []
    for k, n in counts.items():
        specs += [(seed, k, i, tier) for i in range(max(4, int(n * scale)))]
    rule = ('one case = several (input, command line) pairs from the C01-C03 generators (valid discs and programs, incl. runs '
            'without --dialect) and from the hostile corpora of C07/C08; each pair runs on rel (NDEBUG), dbg (assertions on), '
            'asserteval (assert expressions evaluated, never fatal) and pattern (NDEBUG, uninitialised locals pattern-'
            'filled): (stdout, status) must agree, except that dbg may stop with SIGABRT on "Assertion ... failed"; '
            'distinct = (kind, input, command line)')
    try:
        return run_check(PROP, 'exploration', case, specs, tier, seed, rule,
                         assumptions=['inputs on which the assertion-enabled build stops on a failed assertion are excluded '
                                      'by the statement (they are C07/C08 matters) and only counted here'])
    finally:
        if os.path.exists(flag):
            os.unlink(flag)
