"""C13 -- file-system variant and geometry are identified from the on-disc
markers only.

Reference-model monitor (slot totals, catalogue listings, Opus volume sets,
geometry >= catalogue size) plus a metamorphic monitor: discs with identical
catalogues and different, marker-imitating file bodies must give identical
cat / info / free / show-config results.
"""
import os
import re

from .. import build, discmodel as dm, refmodel as rm
from ..dfsutil import case_rng, dfs, write_file
from ..execu import clean_failure_key
from ..runner import run_check, CaseResult, Scratch

PROP = 'C13'
BIN = {}


def catalogue_like(rng, total=400):
    """two sectors that form a valid-looking, non-trivial Acorn catalogue"""
    ents = [dm.Entry('$', 'FAKE%d' % i, False, 0, 0, 200, 2 + i, b'') for i in range(rng.randint(0, 3))]
    s0, s1 = dm._fragment(b'FAKECAT', 0, 1, 0, total, dm.catalogue_order(ents))
    return s0 + s1


OPUS_FORGERIES = ['zero-total', 'tiny-total', 'no-volumes', 'start-beyond', 'start-beyond', 'odd-total']


def opus_like(rng, nsec, kind):
    """an Opus-looking sector 16 that is NOT a complete, self-consistent table"""
    s16 = bytearray(256)
    s16[0] = 0x20
    s16[3] = 18
    tot = nsec
    if kind == 'zero-total':
        tot = 0
    elif kind == 'tiny-total':
        tot = 5
    elif kind == 'odd-total':
        tot = rng.choice([631, 719, 1000])
    s16[1] = (tot >> 8) & 0xFF
    s16[2] = tot & 0xFF
    s16[4] = nsec // 18
    if kind == 'no-volumes':
        pass
    elif kind == 'start-beyond':
        s16[8] = rng.choice([200, 250, nsec // 18, nsec // 18 + 1])     # volume A beyond the last track
        if rng.random() < 0.5:
            s16[10] = 251
    else:
        s16[8] = 1
    return bytes(s16) + bytes(256), kind


def body_variants(rng, length, base):
    """bodies of the same length: random, 0xAA run, Watford-marker start, catalogue-like, Opus-like"""
    out = [('random', base)]
    out.append(('aa-run', (b'\xAA' * length)))
    out.append(('watford-marker', (b'\xAA' * 8 + base[8:])[:length]))
    out.append(('catalogue-like', (catalogue_like(rng) * (length // 512 + 1))[:length]))
    out.append(('zeros', bytes(length)))
    return out


def observe(dfsbin, path, drive_vols, res, files):
    """the observable identification: per volume cat / info / free, plus show-config (stderr)"""
    obs = {}
    bad = False
    for dv in drive_vols:
        for cmd in (['cat', dv], ['info', ':%s.#.*' % dv], ['free', dv]):
            r_ = dfs(dfsbin, path, cmd)
            res.execs += 1
            k = clean_failure_key(r_, (0, 1, 2))
            if k:
                res.violation('%s:%s' % (cmd[0], k), 'unclean termination', r_.brief(), files, r_.argv)
                bad = True
            obs[' '.join(cmd)] = (r_.rc, r_.out)
    r_ = dfs(dfsbin, path, ['show-titles'], pre=['--show-config'])
    res.execs += 1
    cfg = b'\n'.join(re.sub(rb'(non-)?interleaved file \S+', b'FILE', l) for l in r_.err.split(b'\n') if l.startswith(b'Drive'))
    obs['show-config'] = (r_.rc, cfg, r_.out)
    return obs, bad


def slots_total(obs, dv):
    d = rm.parse_free(obs['free ' + dv][1]) if obs['free ' + dv][0] == 0 else None
    return None if d is None else d['Free'][0] + d['Used'][0]


def geometry_of(obs, drive=0):
    m = re.search(rb'Drive\s+%d: occupied, (\w+) density, (\d) sides?, (\d+) tracks, (\d+) sectors per track' % drive,
                  obs['show-config'][1])
    if not m:
        return None
    return m.group(1).decode(), int(m.group(2)), int(m.group(3)), int(m.group(4))


def case(spec):
    seed, kind, idx, tier = spec
    rng = case_rng(seed, PROP, (kind, idx))
    res = CaseResult()
    dfsbin = BIN['san']['dfs']
    with Scratch('c13') as tmp:
        if kind == 'bodies':
            # ------- identical catalogue, different bodies --------------------------------
            variant = rng.choice(['acorn', 'acorn', 'watford'])
            hdfs = idx % 5 == 4          # HDFS flag bit set: only the metamorphic part is judged for these
            if hdfs:
                variant = 'acorn'
            spt = [18, 10, 18][idx % 3]
            rng.choice([10, 18])
            total = rng.choice([400, 800]) if spt == 10 else rng.choice([720, 1023])
            tracks = dm.std_geometry(total, spt)
            first = 4 if variant == 'watford' else 2
            # files that cover the hot spots: the first data sector, sector 16/17 and the side-2 offsets
            hot = [first, 16, tracks * spt // 2, 35 * spt, 40 * spt]
            ents = []
            pos = first
            names = iter(dm.unique_names(rng, 31, dm.NAME_ALNUM, '$AB'))
            full = rng.random() < 0.4
            layout = []
            for h in sorted(set(x for x in hot if first <= x < total - 4)):
                if h < pos:
                    continue
                if h > pos and rng.random() < 0.5:
                    layout.append((pos, (h - pos) * 256))      # filler file up to the hot spot
                    pos = h
                elif h > pos:
                    pos = h
                ln = rng.choice([512, 1024, 300, 700])
                layout.append((pos, ln))
                pos += (ln + 255) // 256
            nmax = 31
            while full and len(layout) < nmax and pos < total - 2:
                layout.append((pos, rng.choice([1, 256, 300])))
                pos += 2
            for (st, ln) in layout[:31]:
                d, nm = next(names)
                ents.append(dm.Entry(d, nm, rng.random() < 0.3, rng.getrandbits(18), rng.getrandbits(18), ln, st,
                                     rng.randbytes(ln)))
            if variant == 'watford':
                k = rng.randint(0, len(ents))
                cat = dm.Cat(b'BODIES', 0, 7, 1, total, dm.catalogue_order(ents[:k]), dm.catalogue_order(ents[k:]))
            else:
                cat = dm.Cat(b'BODIES', 0, 7, 1, total, dm.catalogue_order(ents))
            ext = 'ssd' if spt == 10 else 'sdd'
            results = []
            nvar = 0
            # each variant replaces the bodies of all files by one imitation kind (catalogue stays identical)
            kinds = ['random', 'aa-run', 'watford-marker', 'catalogue-like', 'zeros', 'free-space-noise']
            # every kind of incomplete Opus table on every double-density disc
            todo = [(k, None) for k in kinds] + ([('opus-like', fk) for fk in OPUS_FORGERIES] if spt == 18 else [])
            for vk, fk in todo:
                for e in ents:
                    if vk in ('random', 'free-space-noise'):
                        e.body = rng.randbytes(e.length)
                    elif vk == 'opus-like':
                        e.body = rng.randbytes(e.length)
                    else:
                        e.body = dict(body_variants(rng, e.length, rng.randbytes(e.length)))[vk]
                s = dm.Surface(variant, tracks, spt, [dm.Volume(None, 0, tracks * spt, 0, cat)], rng.getrandbits(16), 0)
                img = bytearray(s.image())
                if hdfs:
                    img[256 + 6] |= 0x08          # "HDFS by its flag bit" (single-sided)
                if vk == 'opus-like' and spt == 18:
                    own = s.owners().get(16)
                    if own and own[0] == 'file':
                        forged, fk = opus_like(rng, tracks * spt, fk)
                        img[16 * 256:18 * 256] = forged
                        res.seen('opus_forgeries', fk)
                if vk == 'free-space-noise':
                    own = s.owners()
                    for lba in range(first, tracks * spt):
                        if lba not in own and rng.random() < 0.5:
                            img[lba * 256:(lba + 1) * 256] = rng.choice([catalogue_like(rng)[:256], b'\xAA' * 256,
                                                                         rng.randbytes(256)])
                path = os.path.join(tmp, 'v%d.%s' % (nvar, ext))
                nvar += 1
                write_file(path, bytes(img))
                files = {os.path.basename(path): bytes(img)}
                obs, bad = observe(dfsbin, path, ['0'], res, files)
                results.append((vk, obs, files, path))
                res.events += 1
                # reference: the variant its markers define
                want_slots = 62 if variant == 'watford' else 31
                got_slots = slots_total(obs, '0')
                lines = [rm.parse_info_line(l) for l in obs['info :0.#.*'][1].split(b'\n') if l]
                exp = [rm.expected_info(e) for e in cat.all_entries()]
                if hdfs:
                    res.add('hdfs_flagged_variants', 1)
                elif got_slots != want_slots or lines != exp:
                    res.violation('misidentified:%s-as-other:%s' % (variant, vk),
                                  'a well-formed %s disc whose file bodies are "%s" is not listed as %s (slots %r, '
                                  '%d of %d catalogue lines)' % (variant, vk, variant, got_slots, len(lines), len(exp)),
                                  {'free': obs['free 0'], 'cat': obs['cat 0'][1][:300], 'config': obs['show-config'][1]},
                                  files, [dfsbin, '--file', path, 'info', ':0.#.*'])
                g = geometry_of(obs)
                if (g is None or g[2] * g[3] < total or g[1] != 1) and not (hdfs and g is None):
                    res.violation('geometry-too-small-or-changed:%s' % vk, 'geometry %r for a catalogue of %d sectors' % (g, total),
                                  {'config': obs['show-config'][1]}, files, [dfsbin, '--show-config', '--file', path, 'cat'])
                res.sigs.append('bodies|%s|%d|%d|%s%s|%d' % (variant, spt, total, vk, fk or '', idx))
            base = results[0]
            for vk, obs, files, path in results[1:]:
                res.events += 1
                if obs != base[1]:
                    diff = [k for k in obs if obs[k] != base[1].get(k)]
                    f2 = dict(files)
                    f2.update(base[2])
                    res.violation('identification-depends-on-bodies:%s' % vk,
                                  'same catalogue, bodies "%s" vs "random": %s differ' % (vk, ', '.join(diff)),
                                  {'this': {k: obs[k] for k in diff}, 'random': {k: base[1][k] for k in diff}}, f2,
                                  [dfsbin, '--file', path, diff[0].split()[0]])
            res.sample = {'kind': kind, 'variant': variant, 'spt': spt, 'total': total, 'files': len(ents), 'variants': [a for a, _ in todo]}
        elif kind == 'twosided35':
            # a 35-track two-sided non-interleaved image (a track count other than 40/80): where the second side of
            # a 40-track two-sided image would begin there is the body of a file of the real second side; whatever
            # that body holds (also a valid-looking catalogue) the image stays 35 tracks x 2 sides
            spt = [10, 18][idx % 2]
            tracks = 35
            total = tracks * spt
            ext = 'ssd' if spt == 10 else 'sdd'
            v0, v1 = rng.choice(['acorn', 'watford']), rng.choice(['acorn', 'watford'])
            s0 = dm.gen_surface(rng, variant=v0, spt=spt, total=total, tracks=tracks, sid=0, maxlen_sectors=6, nfiles=rng.randint(0, 6))
            hot = (40 - tracks) * spt
            first = 4 if v1 == 'watford' else 2
            ents = []
            names = iter(dm.unique_names(rng, 6, dm.NAME_ALNUM, '$AB'))
            for (st, ln) in [(first, 256 * rng.randint(1, 3)), (hot, rng.choice([512, 1024, 700])), (hot + 8, 300)]:
                d, nm = next(names)
                ents.append(dm.Entry(d, nm, False, rng.getrandbits(18), rng.getrandbits(18), ln, st, rng.randbytes(ln)))
            if v1 == 'watford':
                cat1 = dm.Cat(b'SIDETWO', 0, 3, 0, total, dm.catalogue_order(ents[:1]), dm.catalogue_order(ents[1:]))
            else:
                cat1 = dm.Cat(b'SIDETWO', 0, 3, 0, total, dm.catalogue_order(ents))
            results = []
            for nvar, vk in enumerate(['random', 'catalogue-like', 'catalogue-like-small', 'zeros', 'aa-run']):
                e = ents[1]
                if vk == 'random':
                    e.body = rng.randbytes(e.length)
                elif vk == 'zeros':
                    e.body = bytes(e.length)
                elif vk == 'aa-run':
                    e.body = b'\xAA' * e.length
                else:
                    fake = catalogue_like(rng, total=(40 * spt if vk == 'catalogue-like' else rng.choice([200, 350, 400])))
                    e.body = (fake * 3)[:e.length]
                s1 = dm.Surface(v1, tracks, spt, [dm.Volume(None, 0, total, 0, cat1)], rng.getrandbits(16), 1)
                raw = s0.image() + s1.image()
                path = os.path.join(tmp, 't%d.%s' % (nvar, ext))
                write_file(path, raw)
                files = {os.path.basename(path): raw}
                obs, bad = observe(dfsbin, path, ['0', '2'], res, files)
                results.append((vk, obs, files, path))
                res.events += 1
                for dv, surf in (('0', s0), ('2', s1)):
                    lines = [rm.parse_info_line(l) for l in obs['info :%s.#.*' % dv][1].split(b'\n') if l]
                    exp = [rm.expected_info(x) for x in surf.volumes[0].cat.all_entries()]
                    g = geometry_of(obs, int(dv))
                    if lines != exp or g is None or g[2] != tracks or g[3] != spt:
                        res.violation('misidentified:twosided35:%s' % vk,
                                      'a 35-track two-sided image whose side-2 file body at sector %d is "%s": drive %s shows '
                                      'geometry %r and %d of %d catalogue lines' % (hot, vk, dv, g, len(lines), len(exp)),
                                      {'config': obs['show-config'][1], 'cat': obs['cat ' + dv][1][:200]}, files,
                                      [dfsbin, '--show-config', '--file', path, 'info', ':%s.#.*' % dv])
                        break
                res.sigs.append('twosided35|%d|%s|%s|%s|%d' % (spt, v0, v1, vk, idx))
            base = results[0]
            for vk, obs, files, path in results[1:]:
                res.events += 1
                if obs != base[1]:
                    diff = [k for k in obs if obs[k] != base[1].get(k)]
                    f2 = dict(files)
                    f2.update(base[2])
                    res.violation('identification-depends-on-bodies:twosided35:%s' % vk,
                                  'same catalogues, side-2 body "%s" vs "random": %s differ' % (vk, ', '.join(diff)),
                                  {'this': {k: obs[k] for k in diff}, 'random': {k: base[1][k] for k in diff}}, f2,
                                  [dfsbin, '--file', path, diff[0].split()[0]])
            res.sample = {'kind': kind, 'spt': spt, 'sides': [v0, v1], 'hot_sector_on_side_2': hot}
        elif kind == 'inter':
            # two-sided interleaved images: each side is identified on its own markers
            from ..dfsutil import make_image
            img = make_image(rng, tmp, kind='inter', maxlen_sectors=10)
            raw = open(img.path, 'rb').read()
            files = {os.path.basename(img.path): raw}
            dvs = ['%d%s' % (d, v.label or '') for s_, d in zip(img.surfaces, img.drives) for v in s_.volumes]
            obs, bad = observe(dfsbin, img.path, dvs, res, files)
            res.events += 1
            problems = []
            for s_, d in zip(img.surfaces, img.drives):
                for v in s_.volumes:
                    dv = '%d%s' % (d, v.label or '')
                    lines = [rm.parse_info_line(l) for l in obs['info :%s.#.*' % dv][1].split(b'\n') if l]
                    if obs['info :%s.#.*' % dv][0] != 0 or lines != [rm.expected_info(e) for e in v.cat.all_entries()]:
                        problems.append('listing of %s' % dv)
                    if s_.variant != 'opus' and slots_total(obs, dv) != (62 if s_.variant == 'watford' else 31):
                        problems.append('slot total of %s' % dv)
                g = geometry_of(obs, d)
                if g is None or g[2] != s_.tracks or g[3] != s_.spt:
                    problems.append('geometry of drive %d: %r' % (d, g))
            if problems:
                res.violation('misidentified:interleaved:%s' % img.surfaces[0].variant,
                              'two-sided interleaved image (%d tracks, %d spt): %s' % (img.surfaces[0].tracks, img.surfaces[0].spt,
                                                                                      '; '.join(problems[:4])),
                              {'config': obs['show-config'][1]}, files, [dfsbin, '--show-config', '--file', img.path, 'cat'])
            res.sigs.append('inter|%s|%d|%d|%d' % (img.surfaces[0].variant, img.surfaces[0].tracks, img.surfaces[0].spt, idx))
            res.sample = {'kind': kind, 'image': os.path.basename(img.path), 'tracks': img.surfaces[0].tracks}
        elif kind == 'watford-hi':
            # Watford discs with a file at every start sector congruent to 2 modulo 256, and Acorn discs
            # with a full catalogue whose last entry starts in sector 2 with the Watford marker bytes
            sub = idx % 5
            if sub == 4:
                # Watford "large disc": bit 10 of the sector count lives in bit 2 of the catalogue's option byte
                total = rng.choice([1280, 1440, 1100, 1024])
                spt, tracks = 18, 80
                far = rng.choice([900, 1000, 1023, 700])
                ents = [dm.Entry('$', 'FAR', False, 0, 0, 600, far, rng.randbytes(600)),
                        dm.Entry('$', 'LOW', False, 0, 0, 256, 4, rng.randbytes(256))]
                more = [dm.Entry('W', 'SEC%d' % i, False, 0, 0, 256, 10 + i, rng.randbytes(256)) for i in range(rng.randint(0, 5))]
                cat = dm.Cat(b'WATBIG', 0, 1, 0, total, dm.catalogue_order(ents), dm.catalogue_order(more))
                s = dm.Surface('watford', tracks, spt, [dm.Volume(None, 0, tracks * spt, 0, cat)], rng.getrandbits(16), 0)
                img = s.image()
                path = os.path.join(tmp, 'big.sdd')
                write_file(path, img)
                files = {'big.sdd': img}
                obs, bad = observe(dfsbin, path, ['0'], res, files)
                res.events += 1
                g = geometry_of(obs)
                r_ = dfs(dfsbin, path, ['type', '--binary', 'FAR'])
                res.execs += 1
                lines = [rm.parse_info_line(l) for l in obs['info :0.#.*'][1].split(b'\n') if l]
                exp = [rm.expected_info(e) for e in cat.all_entries()]
                # (free is not judged: its arithmetic uses the 10-bit field only)
                if g is None or g[2] * g[3] < total or r_.rc != 0 or r_.out != ents[0].body or lines != exp:
                    res.violation('misidentified:watford-large-disc',
                                  'Watford disc of %d sectors (large-disc flag): geometry %r, type FAR exit %s, %d of %d '
                                  'catalogue lines' % (total, g, r_.rc, len(lines), len(exp)),
                                  {'config': obs['show-config'][1], 'run': r_.brief()}, files, r_.argv)
                res.sigs.append('watford-large|%d|%d' % (total, far))
                res.sample = {'kind': kind, 'variant': 'watford-large', 'total': total}
                return res
            if sub < 3:
                start = [0x102, 0x202, 0x302][sub]
                total = 1023
                spt, tracks = 18, 80
                ents = [dm.Entry('$', 'HIGH', False, 0, 0, 600, start, rng.randbytes(600)),
                        dm.Entry('$', 'LOW', False, 0, 0, 256, 4, rng.randbytes(256))]
                more = [dm.Entry('W', 'SEC%d' % i, False, 0, 0, 256, 10 + i, rng.randbytes(256)) for i in range(rng.randint(1, 31))]
                cat = dm.Cat(b'WATHI', 0, 1, 0, total, dm.catalogue_order(ents), dm.catalogue_order(more))
                variant = 'watford'
            else:
                total = rng.choice([400, 800])
                spt, tracks = 10, dm.std_geometry(total, 10)
                n = rng.choice([31, 31, 1, 5])
                ents = [dm.Entry('$', 'AA', False, 0, 0, 512, 2, b'\xAA' * 8 + rng.randbytes(504))]
                ents += [dm.Entry('$', 'F%d' % i, False, 0, 0, 256, 4 + i, rng.randbytes(256)) for i in range(n - 1)]
                cat = dm.Cat(b'ACORNAA', 0, 1, 0, total, dm.catalogue_order(ents))
                variant = 'acorn'
            s = dm.Surface(variant, tracks, spt, [dm.Volume(None, 0, tracks * spt, 0, cat)], rng.getrandbits(16), 0)
            img = s.image()
            path = os.path.join(tmp, 'w.' + ('ssd' if spt == 10 else 'sdd'))
            write_file(path, img)
            files = {os.path.basename(path): img}
            obs, bad = observe(dfsbin, path, ['0'], res, files)
            res.events += 1
            want_slots = 62 if variant == 'watford' else 31
            lines = [rm.parse_info_line(l) for l in obs['info :0.#.*'][1].split(b'\n') if l]
            exp = [rm.expected_info(e) for e in cat.all_entries()]
            if slots_total(obs, '0') != want_slots or lines != exp:
                res.violation('misidentified:%s-marker-rule:%d' % (variant, sub),
                              '%s disc (%s) is not listed as %s' % (variant, 'file at start sector %03X' % ents[0].start, variant),
                              {'free': obs['free 0'], 'info_lines': len(lines), 'expected_lines': len(exp)}, files,
                              [dfsbin, '--file', path, 'free'])
            res.sigs.append('watford-hi|%d|%d|%d' % (sub, total, len(cat.all_entries())))
            res.sample = {'kind': kind, 'variant': variant, 'first_file_start': ents[0].start}
        else:
            # Opus discs: volume tables in and out of letter order, 1..8 volumes, every geometry
            tracks = rng.choice([35, 40, 80])
            nv = rng.randint(1, 8)
            while True:
                starts = sorted([1] + rng.sample(range(2, tracks), nv - 1)) if nv > 1 else [1]
                ends = starts[1:] + [tracks]
                if all((b - a) * 18 <= 1023 for a, b in zip(starts, ends)):
                    break
                nv = min(8, nv + 1)
            extents = list(zip(starts, ends))
            if idx % 2 == 1:
                rng.shuffle(extents)          # letters no longer follow the order on the disc
            vols = []
            for i, (a, b) in enumerate(extents):
                vlen = (b - a) * 18
                ents = [dm.Entry('$', 'V%s%d' % ('ABCDEFGH'[i], j), False, 0, 0, 300, 2 * j, rng.randbytes(300))
                        for j in range(rng.randint(0, 3))]
                cat = dm.Cat(('VOL' + 'ABCDEFGH'[i]).encode(), 0, i, 0, vlen, dm.catalogue_order(ents))
                vols.append(dm.Volume('ABCDEFGH'[i], a * 18, vlen, 2 * i, cat))
            s = dm.Surface('opus', tracks, 18, vols, rng.getrandbits(16), 0, 'MFM')
            img = s.image()
            path = os.path.join(tmp, 'o.sdd')
            write_file(path, img)
            files = {'o.sdd': img}
            dvs = ['0' + v.label for v in vols]
            obs, bad = observe(dfsbin, path, dvs, res, files)
            res.events += 1
            r_ = dfs(dfsbin, path, ['show-titles', '0'])
            res.execs += 1
            exp_titles = b''.join(('0%s: %s\n' % (v.label, v.cat.title_str())).encode() for v in vols)
            problems = []
            if r_.out != exp_titles:
                problems.append('show-titles %r' % r_.out[:80])
            for v in vols:
                lines = [rm.parse_info_line(l) for l in obs['info :0%s.#.*' % v.label][1].split(b'\n') if l]
                if lines != [rm.expected_info(e) for e in v.cat.all_entries()]:
                    problems.append('info of volume %s' % v.label)
            g = geometry_of(obs)
            if g is None or g[2] != tracks or g[3] != 18:
                problems.append('geometry %r' % (g,))
            if problems:
                res.violation('misidentified:opus:%s' % ('letter-order' if idx % 2 == 0 else 'shuffled-order'),
                              'Opus DDOS disc with %d volumes not identified / listed correctly: %s' % (nv, '; '.join(problems)),
                              {'extents': extents, 'config': obs['show-config'][1]}, files, [dfsbin, '--file', path, 'show-titles'])
            res.sigs.append('opus|%d|%d|%r' % (tracks, nv, extents[:3]))
            res.sample = {'kind': kind, 'tracks': tracks, 'volume_start_tracks': [a for a, _ in extents]}
    return res


def main(tier, seed, scale=1.0):
    BIN['san'] = build.ensure('san')
    q = tier == 'quick'
    counts = {'bodies': 90 if q else 4000, 'watford-hi': 40 if q else 1000, 'opus': 100 if q else 3000, 'inter': 60 if q else 1500, 'twosided35': 24 if q else 600}
    specs = []
    for k, n in counts.items():
        specs += [(seed, k, i, tier) for i in range(max(4, int(n * scale)))]
    rule = ('bodies cases: one Acorn/Watford catalogue (10/18 spt, files covering the first data sector, sectors 16-17 and '
            'the side-2 offsets, up to a full 31 entries) with 7 body variants (random, 0xAA runs, Watford marker at the '
            'start, catalogue-like sectors, zeros, incomplete Opus tables, noise in free space): slot total, full info '
            'listing and geometry vs the model and cat/info/free/show-config identical across variants; watford-hi cases: '
            'Watford discs with a file at 0x102/0x202/0x302 and Acorn discs whose last of 31 entries starts in sector 2 '
            'with the marker bytes; opus cases: 1-8 volumes in and out of letter order on 35/40/80 tracks; distinct = '
            '(kind, variant, geometry, body variant, case)')
    return run_check(PROP, 'exploration', case, specs, tier, seed, rule,
                     assumptions=['forged Opus tables are deliberately incomplete (zero / tiny / odd totals, no volumes, '
                                  'start tracks beyond the disc), as the statement excludes complete forgeries',
                                  'HDFS identification is not judged (documented as unsupported)'])
