"""C09 -- bbcbasic_to_text rejects truncated or ill-formed programs and never
invents text.

Fault enumeration: every proper non-empty prefix of generated well-formed
programs; single-byte framing/token corruptions judged by the strict
reference validator (vf.basicref); sequences of 1..4 input files.
"""
import itertools
import os
import random

from .. import build, basicgen as bg, basicref as br
from ..execu import run, clean_failure_key
from ..runner import run_check, CaseResult, Scratch

PROP = 'C09'
BIN = {}


def tool(binp, dialect, listo, inputs, stdin=b''):
    return run([binp, '--dialect=' + dialect, '--listo=%d' % listo] + inputs, stdin=stdin, max_output=8 << 20)


def unclean(res, r_, files):
    k = clean_failure_key(r_, (0, 1))
    if k:
        res.violation(k, 'unclean termination', r_.brief(), files, r_.argv)
        return True
    return False


def stale_prog(r, dialect):
    """programs built to provoke reuse of a stale line buffer: consecutive
    lines of equal length, long line followed by short ones"""
    fam = br.FAMILY[dialect]
    vb = [b for b in bg.valid_bytes(fam) if b not in bg.LOOP]
    lines = []
    n = r.randint(2, 6)
    ln = r.choice([3, 8, 20, 60])
    num = 0
    for i in range(n):
        num += r.randrange(1, 50)
        body = bg.gen_line_body(r, fam, vb, ln)
        body = body + b'A' * (ln - len(body)) if r.random() < 0.6 else body
        lines.append((num, body))
        if r.random() < 0.3:
            ln = max(1, ln // 2)
    return bg.frame(dialect, lines), lines


def corruptions(r, dialect, prog, lines):
    """single-byte edits aimed at framing and token structure: (offset, new byte, what)"""
    fam = br.FAMILY[dialect]
    out = []
    be = dialect in br.BE
    # walk the framing
    p = 0
    offs = []
    for num, body in lines:
        if be:
            offs.append({'start': p, 'hi': p + 1, 'lo': p + 2, 'len': p + 3, 'body': p + 4, 'blen': len(body)})
            p += 4 + len(body)
        else:
            offs.append({'len': p, 'lo': p + 1, 'hi': p + 2, 'body': p + 3, 'blen': len(body), 'term': p + 3 + len(body)})
            p += 4 + len(body)
    marker = p
    for o in offs:
        if be:
            out.append((o['start'], r.choice([0x00, 0x0A, 0x0C, 0x0E, 0xFF, 0x8D]), 'bad-start-byte'))
        else:
            out.append((o['term'], r.choice([0x00, 0x0A, 0x0E, 0xFF, 0x20]), 'missing-terminator'))
        out.append((o['len'], r.choice([0, 1, 2, 3] if be else [1, 2]), 'impossible-length'))
        out.append((o['len'], r.choice([0xFF, 0xFE, min(255, prog[o['len']] + 1), max(4, prog[o['len']] - 1)]), 'wrong-length'))
        if o['blen']:
            q = o['body'] + r.randrange(o['blen'])
            # unassigned tokens for the dialect
            if fam == 'Windows':
                bad = r.choice([0x18, 0x19, 0x1A, 0x1F, 0x00])
            else:
                bad = r.choice([0x00, 0x01, 0x05, 0x0F, 0x10])
            out.append((q, bad, 'unassigned-token'))
            # line-number reference / extension token cut off by end of line
            tail = o['body'] + o['blen'] - 1 - r.randrange(min(3, o['blen']))
            out.append((tail, 0x8D, 'line-number-cut-off'))
            if fam in ('ARM', 'Mac'):
                out.append((o['body'] + o['blen'] - 1, r.choice([0xC6, 0xC7, 0xC8]), 'extension-cut-off'))
                out.append((q, r.choice([0xC6, 0xC7, 0xC8]), 'extension-code'))
            if fam == 'PDP11':
                out.append((o['body'] + o['blen'] - 1, 0xC8, 'extension-cut-off'))
    # the end marker
    if be:
        out.append((marker, r.choice([0x00, 0x0A, 0xFF]), 'bad-end-marker'))
    else:
        out.append((marker + 1, r.choice([0x00, 0xFE]), 'bad-end-marker'))
        out.append((marker + 2, r.choice([0x00, 0xFE]), 'bad-end-marker'))
    r.shuffle(out)
    return out


def case(spec):
    seed, kind, idx, tier = spec
    r = random.Random('%s/C09/%s/%d' % (seed, kind, idx))
    res = CaseResult()
    binp = BIN['san']['basic']
    dialect = bg.DIALECTS[idx % len(bg.DIALECTS)]
    listo = r.randrange(8)
    with Scratch('c09') as tmp:
        if kind == 'prefix':
            if r.random() < 0.4:
                prog, lines = stale_prog(r, dialect)
            else:
                prog, lines = bg.gen_prog(r, dialect, maxlines=8)
            if len(prog) > 600:
                prog, lines = stale_prog(r, dialect)
            files = {'p.bbc': prog}
            full = tool(binp, dialect, listo, ['-'], stdin=prog)
            res.execs += 1
            if unclean(res, full, files):
                return res
            if full.rc != 0:
                res.violation('intact-rejected', 'intact well-formed program rejected', full.brief(), files, full.argv)
                return res
            use_file = r.random() < 0.3
            for n in range(1, len(prog)):
                pre = prog[:n]
                if use_file:
                    pth = os.path.join(tmp, 'cut.bbc')
                    with open(pth, 'wb') as f:
                        f.write(pre)
                    r_ = tool(binp, dialect, listo, [pth])
                else:
                    r_ = tool(binp, dialect, listo, ['-'], stdin=pre)
                res.execs += 1
                res.events += 1
                pf = {'p.bbc': prog, 'prefix.bbc': pre}
                if unclean(res, r_, pf):
                    continue
                where = 'end-marker' if n >= len(prog) - (2 if dialect in br.BE else 3) + 0 else 'body'
                if r_.rc == 0:
                    res.violation('truncated-accepted:%s:%s' % (where, 'BE' if dialect in br.BE else 'LE'),
                                  'program cut after %d of %d bytes accepted with exit 0' % (n, len(prog)),
                                  {'dialect': dialect, 'listo': listo, 'run': r_.brief()}, pf, r_.argv)
                elif not r_.err.strip():
                    res.violation('truncated-silent', 'truncated program rejected without diagnostic',
                                  {'dialect': dialect, 'run': r_.brief()}, pf, r_.argv)
                if not full.out.startswith(r_.out):
                    res.violation('invented-text:%s' % ('BE' if dialect in br.BE else 'LE'),
                                  'output for the file cut after %d bytes is not a prefix of the intact listing' % n,
                                  {'dialect': dialect, 'listo': listo, 'got_tail': r_.out[-120:],
                                   'intact_head': full.out[:200], 'run': r_.brief()}, pf, r_.argv)
                res.sigs.append('prefix|%s|%d|%d' % (dialect, idx, n))
            res.seen('dialects', dialect)
            res.add('programs', 1)
            res.sample = {'kind': 'prefix', 'dialect': dialect, 'program_hex': prog[:80].hex(), 'prefixes': len(prog) - 1}
        elif kind == 'corrupt':
            prog, lines = bg.gen_prog(r, dialect, maxlines=8)
            if not lines:
                prog, lines = stale_prog(r, dialect)
            for off, newb, what in corruptions(r, dialect, prog, lines)[:40 if tier == 'quick' else 200]:
                if off >= len(prog) or prog[off] == newb:
                    continue
                mut = prog[:off] + bytes([newb]) + prog[off + 1:]
                try:
                    exp = br.list_program(dialect, mut, listo, strict=True)
                    verdict = 'valid'
                except br.Ambiguous:
                    res.add('ambiguous_skipped', 1)
                    continue
                except br.Invalid as e:
                    verdict = 'invalid'
                    why = str(e)
                except (KeyError, IndexError) as e:
                    res.add('ambiguous_skipped', 1)
                    continue
                r_ = tool(binp, dialect, listo, ['-'], stdin=mut)
                res.execs += 1
                res.events += 1
                pf = {'p.bbc': prog, 'corrupt.bbc': mut}
                if unclean(res, r_, pf):
                    continue
                res.seen('corruption_kinds', what)
                res.add('corruptions_%s' % verdict, 1)
                if verdict == 'invalid':
                    if r_.rc == 0 or not r_.err.strip():
                        res.violation('ill-formed-accepted:%s:%s' % (what, br.FAMILY[dialect]),
                                      'ill-formed program (%s; reference: %s) exit %d' % (what, why, r_.rc),
                                      {'dialect': dialect, 'offset': off, 'byte': newb, 'run': r_.brief()}, pf, r_.argv)
                else:
                    if r_.rc != 0 or r_.out != exp:
                        res.violation('valid-after-edit-mismatch:%s' % what,
                                      'edited program is still well-formed but the listing differs / was rejected',
                                      {'dialect': dialect, 'offset': off, 'byte': newb, 'run': r_.brief(),
                                       'expected_head': exp[:200]}, pf, r_.argv)
                res.sigs.append('corrupt|%s|%d|%d|%d' % (dialect, idx, off, newb))
            res.sample = {'kind': 'corrupt', 'dialect': dialect, 'program_hex': prog[:80].hex()}
        else:
            # sequences of 1..4 input files, valid and truncated, every order
            items = []
            nfiles = r.randint(2, 4)
            for i in range(nfiles):
                prog, lines = stale_prog(r, dialect) if r.random() < 0.6 else bg.gen_prog(r, dialect, maxlines=5)
                if r.random() < 0.5 and len(prog) > 3:
                    cut = r.randrange(1, len(prog))
                    prog = prog[:cut]
                pth = os.path.join(tmp, 'f%d.bbc' % i)
                with open(pth, 'wb') as f:
                    f.write(prog)
                items.append((pth, prog))
            alone = {}
            for pth, prog in items:
                r_ = tool(binp, dialect, listo, [pth])
                res.execs += 1
                alone[pth] = r_
            files = {os.path.basename(p): d for p, d in items}
            orders = list(itertools.permutations(range(nfiles)))
            r.shuffle(orders)
            for order in orders[:6 if tier == 'quick' else 24]:
                seq = [items[i][0] for i in order]
                # optionally one of them through standard input
                stdin_data = b''
                args = list(seq)
                if r.random() < 0.3:
                    j = r.randrange(len(seq))
                    stdin_data = dict(items)[seq[j]]
                    args[j] = '-'
                r_ = tool(binp, dialect, listo, args, stdin=stdin_data)
                res.execs += 1
                res.events += 1
                if unclean(res, r_, files):
                    continue
                exp_out = b''.join(alone[p].out for p in seq)
                exp_rc = max(alone[p].rc for p in seq)
                if r_.out != exp_out:
                    res.violation('multi-file-output', 'listing of a file depends on the files before it',
                                  {'order': [os.path.basename(p) for p in seq], 'dialect': dialect, 'run': r_.brief(),
                                   'expected_head': exp_out[:300]}, files, r_.argv)
                if r_.rc != exp_rc:
                    res.violation('multi-file-status', 'exit status %d for files whose individual statuses are %r'
                                  % (r_.rc, [alone[p].rc for p in seq]),
                                  {'order': [os.path.basename(p) for p in seq], 'run': r_.brief()}, files, r_.argv)
                res.sigs.append('multi|%s|%d|%r' % (dialect, idx, order))
            res.sample = {'kind': 'multi', 'dialect': dialect, 'files': {k: v[:40].hex() for k, v in files.items()}}
    return res


def main(tier, seed, scale=1.0):
    BIN['san'] = build.ensure('san')
    q = tier == 'quick'
    counts = {'prefix': 120 if q else 2000, 'corrupt': 200 if q else 3000, 'multi': 100 if q else 1500}
    specs = []
    for k, n in counts.items():
        specs += [(seed, k, i, tier) for i in range(max(10, int(n * scale)))]
    rule = ('prefix cases: every proper non-empty prefix of a generated program (<= 600 bytes; programs with equal-'
            'length consecutive lines included) must be rejected with a diagnostic and print a prefix of the intact '
            'listing; corrupt cases: single-byte edits of start byte / length / terminator / tokens / 0x8D and '
            'extension codes at end of line / end marker, judged by the strict reference validator (edits that leave '
            'a well-formed program must list as the reference does, ambiguous ones are skipped); multi cases: 2-4 '
            'files (valid and truncated) in up to %d orders, output = concatenation and status = max of the '
            'stand-alone runs; distinct = (kind, dialect, program, cut/offset/order)' % (6 if q else 24))
    return run_check(PROP, 'fault_enumeration', case, specs, tier, seed, rule,
                     assumptions=['0x7F outside ARM/Mac, 0xFB for Mac, bytes after the end marker and little-endian '
                                  'lines of length 3 are not judged (documents and golden data disagree)'])
