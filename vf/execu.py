"""Process executor with watchdog, resource limits, fault injection and the
hook trace channel.  One process per case so that every sanitizer report,
signal or hang is attributed to exactly one input."""
import os
import re
import resource
import signal
import subprocess
import tempfile
import time

from . import HarnessError

SAN_ENV = {
    'ASAN_OPTIONS': 'abort_on_error=1:detect_leaks=0:max_allocation_size_mb=256:'
                    'allocator_may_return_null=0:handle_abort=1:symbolize=1',
    'UBSAN_OPTIONS': 'print_stacktrace=1:halt_on_error=1',
    'MSAN_OPTIONS': 'abort_on_error=1:symbolize=1',
    'LC_ALL': 'C',
    'TZ': 'UTC',
}

DEFAULT_TIMEOUT = 20.0


class R(object):
    __slots__ = ('argv', 'rc', 'out', 'err', 'trace', 'timed_out', 'wall', 'maxrss_kb', 'flooded')

    def __init__(self):
        self.trace = ''
        self.timed_out = False
        self.maxrss_kb = 0
        self.flooded = False

    @property
    def signaled(self):
        return self.rc is not None and self.rc < 0

    def brief(self):
        return {'argv': self.argv, 'rc': self.rc, 'timed_out': self.timed_out,
                'stdout_head': self.out[:400].decode('latin1'),
                'stderr_head': self.err[:1500].decode('latin1')}


def _pump(p, stdin, timeout, max_output):
    """communicate() with a cap on the amount of output kept: a process that
    floods its output is killed (and reported like a hang) instead of
    exhausting the memory of the harness"""
    import selectors
    sel = selectors.DefaultSelector()
    bufs = {p.stdout: [], p.stderr: []}
    sizes = {p.stdout: 0, p.stderr: 0}
    sel.register(p.stdout, selectors.EVENT_READ)
    sel.register(p.stderr, selectors.EVENT_READ)
    inp = memoryview(stdin or b'')
    off = 0
    if p.stdin is not None:
        if len(inp):
            os.set_blocking(p.stdin.fileno(), False)
            sel.register(p.stdin, selectors.EVENT_WRITE)
        else:
            p.stdin.close()
    deadline = time.time() + timeout
    timed_out = flooded = False
    open_out = 2
    while open_out:
        left = deadline - time.time()
        if left <= 0:
            timed_out = True
            break
        for key, ev in sel.select(min(left, 1.0)):
            f = key.fileobj
            if f is p.stdin:
                try:
                    n = os.write(f.fileno(), inp[off:off + 65536])
                    off += n
                except BlockingIOError:
                    n = 0
                except (BrokenPipeError, OSError):
                    off = len(inp)
                if off >= len(inp):
                    sel.unregister(f)
                    try:
                        f.close()
                    except OSError:
                        pass
            else:
                c = os.read(f.fileno(), 1 << 16)
                if not c:
                    sel.unregister(f)
                    open_out -= 1
                else:
                    sizes[f] += len(c)
                    if sizes[f] <= max_output:
                        bufs[f].append(c)
                    else:
                        flooded = True
        if flooded:
            break
    if timed_out or flooded:
        p.kill()
    try:
        p.wait(timeout=10)
    except subprocess.TimeoutExpired:
        p.kill()
        p.wait()
    for f in (p.stdout, p.stderr, p.stdin):
        try:
            if f is not None:
                f.close()
        except OSError:
            pass
    return b''.join(bufs[p.stdout]), b''.join(bufs[p.stderr]), timed_out or flooded, flooded


def _preexec(fsize, ignore_sigpipe, as_limit):
    def fn():
        resource.setrlimit(resource.RLIMIT_CORE, (0, 0))
        # backstop far beyond every watchdog (<= 120 s wall, single-threaded programs): a run that spins after
        # its check was killed from outside must not keep a core for ever
        resource.setrlimit(resource.RLIMIT_CPU, (600, 600))
        if fsize is not None:
            signal.signal(signal.SIGXFSZ, signal.SIG_IGN)
            resource.setrlimit(resource.RLIMIT_FSIZE, (fsize, fsize))
        signal.signal(signal.SIGPIPE, signal.SIG_IGN if ignore_sigpipe else signal.SIG_DFL)
        if as_limit is not None:
            resource.setrlimit(resource.RLIMIT_AS, (as_limit, as_limit))
    return fn


def run(argv, stdin=b'', env=None, cwd=None, timeout=DEFAULT_TIMEOUT, fsize=None,
        trace=False, stdout_file=None, stdout_pipe_limit=None, as_limit=None,
        ignore_sigpipe=False, max_output=64 << 20, stderr_path=None):
    """Run argv.  stdout_file: path to which stdout is redirected (for
    RLIMIT_FSIZE faults); stdout_pipe_limit: close the read end of stdout
    after that many bytes (EPIPE fault, SIGPIPE ignored in the child)."""
    e = dict(os.environ)
    for k in ('COLUMNS', 'LINES', 'BEEBTOOLS_VERIF_TRACE_FD'):
        e.pop(k, None)
    e.update(SAN_ENV)
    if env:
        e.update(env)
    r = R()
    r.argv = list(argv)
    pass_fds = ()
    tf = None
    if trace:
        tf = tempfile.TemporaryFile()
        pass_fds = (tf.fileno(),)
        e['BEEBTOOLS_VERIF_TRACE_FD'] = str(tf.fileno())
    t0 = time.time()
    so = subprocess.PIPE
    sof = None
    if stdout_file is not None:
        sof = open(stdout_file, 'wb')
        so = sof
    if stdout_pipe_limit is not None:
        ignore_sigpipe = True
    sef = None
    if stderr_path is not None:
        # standard error goes to a device / file instead of our pipe (e.g. /dev/full)
        sef = open(stderr_path, 'wb')
        if so is subprocess.PIPE:
            so_tmp = tempfile.TemporaryFile()
            so = so_tmp
        else:
            so_tmp = None
    try:
        p = subprocess.Popen(argv, stdin=subprocess.PIPE, stdout=so, stderr=sef if sef is not None else subprocess.PIPE,
                             env=e, cwd=cwd, pass_fds=pass_fds, close_fds=True,
                             preexec_fn=_preexec(fsize, ignore_sigpipe, as_limit))
    except OSError as ex:
        raise HarnessError('cannot execute %r: %s' % (argv[0], ex))
    try:
        if stdout_pipe_limit is not None:
            # feed stdin, read n bytes of stdout, then slam the pipe shut
            try:
                if stdin:
                    p.stdin.write(stdin)
                p.stdin.close()
            except BrokenPipeError:
                pass
            got = b''
            fd = p.stdout.fileno()
            while len(got) < stdout_pipe_limit:
                chunk = os.read(fd, stdout_pipe_limit - len(got))
                if not chunk:
                    break
                got += chunk
            p.stdout.close()
            p.stdin = None
            p.stdout = None
            try:
                _, err = p.communicate(timeout=timeout)
            except subprocess.TimeoutExpired:
                p.kill()
                _, err = p.communicate()
                r.timed_out = True
            out = got
        elif sef is not None:
            try:
                p.communicate(stdin, timeout=timeout)
            except subprocess.TimeoutExpired:
                p.kill()
                p.communicate()
                r.timed_out = True
            out, err = b'', b''
            if so_tmp is not None:
                so_tmp.seek(0)
                out = so_tmp.read(max_output)
                so_tmp.close()
            sef.close()
        elif so is subprocess.PIPE:
            out, err, r.timed_out, r.flooded = _pump(p, stdin, timeout, max_output)
        else:
            try:
                out, err = p.communicate(stdin, timeout=timeout)
            except subprocess.TimeoutExpired:
                p.kill()
                out, err = p.communicate()
                r.timed_out = True
    finally:
        if sof is not None:
            sof.close()
    r.wall = time.time() - t0
    r.rc = p.returncode
    r.out = out if out is not None else b''
    r.err = err or b''
    if sof is not None:
        try:
            r.out = open(stdout_file, 'rb').read()
        except OSError:
            r.out = b''
    if tf is not None:
        tf.seek(0)
        r.trace = tf.read().decode('latin1')
        tf.close()
    return r


_ASAN = re.compile(r'ERROR: (AddressSanitizer|LeakSanitizer|MemorySanitizer): ([A-Za-z0-9_\- ]+)')
_MSAN = re.compile(r'WARNING: MemorySanitizer: ([A-Za-z0-9_\-]+)')
_UBSAN = re.compile(r'^(\S+?):(\d+):(\d+): runtime error: (.*)$', re.M)
_FRAME = re.compile(r'^\s*#\d+ 0x[0-9a-f]+ in (.+?) (/\S+?):(\d+)', re.M)
_GLIBCXX = re.compile(r"^(/usr/include/c\+\+/\S+):(\d+): (.*?): Assertion '(.*)' failed", re.M)
_ASSERT = re.compile(r"^[^\n]*?([A-Za-z0-9_./+-]+\.(?:cc|c|h)):(\d+): (.*?): Assertion `(.*)' failed", re.M)


def _first_repo_frame(text):
    for m in _FRAME.finditer(text):
        path = m.group(2)
        if '/usr/' in path or 'libsanitizer' in path or 'compiler-rt' in path:
            continue
        fn = re.sub(r'\(.*', '', m.group(1))
        return '%s@%s' % (fn, os.path.basename(path))
    return 'unknown-frame'


def classify_report(err):
    """Return a violation key for a sanitizer / assertion / terminate report
    found on stderr, or None.  Line numbers are stripped from keys."""
    t = err.decode('latin1') if isinstance(err, bytes) else err
    m = _ASAN.search(t)
    if m:
        kind = m.group(2).strip().split(' on ')[0].replace(' ', '-')
        return 'san:%s:%s' % (kind, _first_repo_frame(t[m.start():]))
    m = _MSAN.search(t)
    if m:
        return 'msan:%s:%s' % (m.group(1), _first_repo_frame(t[m.start():]))
    m = _UBSAN.search(t)
    if m:
        msg = re.sub(r'-?\d+', 'N', m.group(4))[:60]
        return 'ubsan:%s:%s' % (os.path.basename(m.group(1)), msg.replace(' ', '-'))
    m = _GLIBCXX.search(t)
    if m:
        fn = re.sub(r'\(.*', '', m.group(3))[:80]
        return 'glibcxx-assert:%s' % fn.replace(' ', '')
    m = _ASSERT.search(t)
    if m:
        return 'assert:%s:%s' % (os.path.basename(m.group(1)), re.sub(r'\s+', '', m.group(4))[:60])
    if 'terminate called' in t:
        m = re.search(r"terminate called after throwing an instance of '([^']+)'", t)
        return 'terminate:%s' % (m.group(1) if m else 'unknown')
    return None


def clean_failure_key(r, allowed_rc=(0, 1, 2)):
    """Key describing an unclean termination of r, or None when r terminated
    by exit with an allowed status (sanitizer-free).  Used by every check
    that runs hostile inputs."""
    if r.flooded:
        return 'hang:output-flood'
    if r.timed_out:
        return 'hang'
    k = classify_report(r.err)
    if k:
        return k
    if r.rc is None:
        return 'no-status'
    if r.rc < 0:
        try:
            name = signal.Signals(-r.rc).name
        except ValueError:
            name = str(-r.rc)
        return 'signal:%s' % name
    if r.rc not in allowed_rc:
        return 'exit-status:%d' % r.rc
    return None


def hang_budget(default=20.0, short=4.0):
    """watchdog limit for one run: once any worker of this check has seen a
    hang (it then creates the flag file) later runs get a short limit, so a
    tree that hangs on a whole class of inputs does not cost a full watchdog
    period per case"""
    flag = os.environ.get('VERIF_HANGFLAG')
    return short if (flag and os.path.exists(flag)) else default


def note_hang():
    flag = os.environ.get('VERIF_HANGFLAG')
    if flag:
        try:
            open(flag, 'w').close()
        except OSError:
            pass


def arm_hang_flag():
    """called by a check's main() before the pool starts; returns the path to remove afterwards"""
    flag = '/dev/shm/verif-hangflag-%d' % os.getpid()
    if os.path.exists(flag):
        os.unlink(flag)
    os.environ['VERIF_HANGFLAG'] = flag
    return flag
