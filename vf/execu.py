"""Process executor with watchdog, resource limits, fault injection and the
hook trace channel.  One process per case so that every sanitizer report,
signal or hang is attributed to exactly one input."""
import os
import re
import resource
import signal
import subprocess
import tempfile
import time

from . import HarnessError

SAN_ENV = {
    'ASAN_OPTIONS': 'abort_on_error=1:detect_leaks=0:max_allocation_size_mb=256:'
                    'allocator_may_return_null=0:handle_abort=1:symbolize=1',
    'UBSAN_OPTIONS': 'print_stacktrace=1:halt_on_error=1',
    'MSAN_OPTIONS': 'abort_on_error=1:symbolize=1',
    'LC_ALL': 'C',
    'TZ': 'UTC',
}

DEFAULT_TIMEOUT = 20.0


class R(object):
    __slots__ = ('argv', 'rc', 'out', 'err', 'trace', 'timed_out', 'wall', 'maxrss_kb')

    def __init__(self):
        self.trace = ''
        self.timed_out = False
        self.maxrss_kb = 0

    @property
    def signaled(self):
        return self.rc is not None and self.rc < 0

    def brief(self):
        return {'argv': self.argv, 'rc': self.rc, 'timed_out': self.timed_out,
                'stdout_head': self.out[:400].decode('latin1'),
                'stderr_head': self.err[:1500].decode('latin1')}


def _preexec(fsize, ignore_sigpipe, as_limit):
    def fn():
        resource.setrlimit(resource.RLIMIT_CORE, (0, 0))
        if fsize is not None:
            signal.signal(signal.SIGXFSZ, signal.SIG_IGN)
            resource.setrlimit(resource.RLIMIT_FSIZE, (fsize, fsize))
        signal.signal(signal.SIGPIPE, signal.SIG_IGN if ignore_sigpipe else signal.SIG_DFL)
        if as_limit is not None:
            resource.setrlimit(resource.RLIMIT_AS, (as_limit, as_limit))
    return fn


def run(argv, stdin=b'', env=None, cwd=None, timeout=DEFAULT_TIMEOUT, fsize=None,
        trace=False, stdout_file=None, stdout_pipe_limit=None, as_limit=None,
        ignore_sigpipe=False):
    """Run argv.  stdout_file: path to which stdout is redirected (for
    RLIMIT_FSIZE faults); stdout_pipe_limit: close the read end of stdout
    after that many bytes (EPIPE fault, SIGPIPE ignored in the child)."""
    e = dict(os.environ)
    for k in ('COLUMNS', 'LINES', 'BEEBTOOLS_VERIF_TRACE_FD'):
        e.pop(k, None)
    e.update(SAN_ENV)
    if env:
        e.update(env)
    r = R()
    r.argv = list(argv)
    pass_fds = ()
    tf = None
    if trace:
        tf = tempfile.TemporaryFile()
        pass_fds = (tf.fileno(),)
        e['BEEBTOOLS_VERIF_TRACE_FD'] = str(tf.fileno())
    t0 = time.time()
    so = subprocess.PIPE
    sof = None
    if stdout_file is not None:
        sof = open(stdout_file, 'wb')
        so = sof
    if stdout_pipe_limit is not None:
        ignore_sigpipe = True
    try:
        p = subprocess.Popen(argv, stdin=subprocess.PIPE, stdout=so, stderr=subprocess.PIPE,
                             env=e, cwd=cwd, pass_fds=pass_fds, close_fds=True,
                             preexec_fn=_preexec(fsize, ignore_sigpipe, as_limit))
    except OSError as ex:
        raise HarnessError('cannot execute %r: %s' % (argv[0], ex))
    try:
        if stdout_pipe_limit is not None:
            # feed stdin, read n bytes of stdout, then slam the pipe shut
            try:
                if stdin:
                    p.stdin.write(stdin)
                p.stdin.close()
            except BrokenPipeError:
                pass
            got = b''
            fd = p.stdout.fileno()
            while len(got) < stdout_pipe_limit:
                chunk = os.read(fd, stdout_pipe_limit - len(got))
                if not chunk:
                    break
                got += chunk
            p.stdout.close()
            p.stdin = None
            p.stdout = None
            try:
                _, err = p.communicate(timeout=timeout)
            except subprocess.TimeoutExpired:
                p.kill()
                _, err = p.communicate()
                r.timed_out = True
            out = got
        else:
            try:
                out, err = p.communicate(stdin, timeout=timeout)
            except subprocess.TimeoutExpired:
                p.kill()
                out, err = p.communicate()
                r.timed_out = True
    finally:
        if sof is not None:
            sof.close()
    r.wall = time.time() - t0
    r.rc = p.returncode
    r.out = out if out is not None else b''
    r.err = err or b''
    if sof is not None:
        try:
            r.out = open(stdout_file, 'rb').read()
        except OSError:
            r.out = b''
    if tf is not None:
        tf.seek(0)
        r.trace = tf.read().decode('latin1')
        tf.close()
    return r


_ASAN = re.compile(r'ERROR: (AddressSanitizer|LeakSanitizer|MemorySanitizer): ([A-Za-z0-9_\- ]+)')
_MSAN = re.compile(r'WARNING: MemorySanitizer: ([A-Za-z0-9_\-]+)')
_UBSAN = re.compile(r'^(\S+?):(\d+):(\d+): runtime error: (.*)$', re.M)
_FRAME = re.compile(r'^\s*#\d+ 0x[0-9a-f]+ in (.+?) (/\S+?):(\d+)', re.M)
_GLIBCXX = re.compile(r"^(/usr/include/c\+\+/\S+):(\d+): (.*?): Assertion '(.*)' failed", re.M)
_ASSERT = re.compile(r"^[^\n]*?([A-Za-z0-9_./+-]+\.(?:cc|c|h)):(\d+): (.*?): Assertion `(.*)' failed", re.M)


def _first_repo_frame(text):
    for m in _FRAME.finditer(text):
        path = m.group(2)
        if '/usr/' in path or 'libsanitizer' in path or 'compiler-rt' in path:
            continue
        fn = re.sub(r'\(.*', '', m.group(1))
        return '%s@%s' % (fn, os.path.basename(path))
    return 'unknown-frame'


def classify_report(err):
    """Return a violation key for a sanitizer / assertion / terminate report
    found on stderr, or None.  Line numbers are stripped from keys."""
    t = err.decode('latin1') if isinstance(err, bytes) else err
    m = _ASAN.search(t)
    if m:
        kind = m.group(2).strip().split(' on ')[0].replace(' ', '-')
        return 'san:%s:%s' % (kind, _first_repo_frame(t[m.start():]))
    m = _MSAN.search(t)
    if m:
        return 'msan:%s:%s' % (m.group(1), _first_repo_frame(t[m.start():]))
    m = _UBSAN.search(t)
    if m:
        msg = re.sub(r'-?\d+', 'N', m.group(4))[:60]
        return 'ubsan:%s:%s' % (os.path.basename(m.group(1)), msg.replace(' ', '-'))
    m = _GLIBCXX.search(t)
    if m:
        fn = re.sub(r'\(.*', '', m.group(3))[:80]
        return 'glibcxx-assert:%s' % fn.replace(' ', '')
    m = _ASSERT.search(t)
    if m:
        return 'assert:%s:%s' % (os.path.basename(m.group(1)), re.sub(r'\s+', '', m.group(4))[:60])
    if 'terminate called' in t:
        m = re.search(r"terminate called after throwing an instance of '([^']+)'", t)
        return 'terminate:%s' % (m.group(1) if m else 'unknown')
    return None


def clean_failure_key(r, allowed_rc=(0, 1, 2)):
    """Key describing an unclean termination of r, or None when r terminated
    by exit with an allowed status (sanitizer-free).  Used by every check
    that runs hostile inputs."""
    if r.timed_out:
        return 'hang'
    k = classify_report(r.err)
    if k:
        return k
    if r.rc is None:
        return 'no-status'
    if r.rc < 0:
        try:
            name = signal.Signals(-r.rc).name
        except ValueError:
            name = str(-r.rc)
        return 'signal:%s' % name
    if r.rc not in allowed_rc:
        return 'exit-status:%d' % r.rc
    return None
