"""Abstract discs with ground truth, serialised independently of the repo code.

A Surface is one side of a disc: variant (acorn / watford / opus), physical
geometry, one or more volumes each with a catalogue and files.  Everything a
tool prints can be compared with the truth kept here.  Every sector that no
file owns carries a unique fingerprint so that any 256-byte block in any
output can be attributed to the sector it came from.
"""
import random
import struct

SECTOR = 256

# Characters usable in DFS names that do not collide with the command-line
# syntax (no '.', ':', '#', '*', space, '"').  Regex metacharacters included.
NAME_SAFE = ''.join(chr(c) for c in range(0x21, 0x7F) if chr(c) not in '.:#*"')
NAME_ALNUM = 'ABCDEFGHIJKLMNOPQRSTUVWXYZabcdefghijklmnopqrstuvwxyz0123456789'
DIRS_SAFE = '$' + 'ABCDEFGHIJKLMNOPQRSTUVWXYZ' + 'abcdefgh' + '!%&@+='


def fingerprint(nonce, surface, lba):
    """256 bytes unique to (image nonce, surface id, sector).  Byte 5 of every
    8-byte group is odd so a fingerprinted sector never looks like the second
    sector of a valid catalogue (entry count not a multiple of 8); byte 3 is
    the surface id (< 18) so sector 16 never looks like an Opus table; no
    group is all 0xAA so sector 2 never looks like the Watford marker."""
    g = bytes([0xE5, (nonce >> 8) & 0xFF, nonce & 0xFF, surface & 0x0F,
               (lba >> 8) & 0xFF, 0x5B, lba & 0xFF,
               (0xE5 ^ (nonce >> 8) ^ nonce ^ surface ^ (lba >> 8) ^ lba) & 0xFF])
    return g * 32


def parse_fingerprint(block):
    """Inverse of fingerprint(): (nonce, surface, lba) or None."""
    if len(block) < 8 or block[0] != 0xE5 or block[5] != 0x5B:
        return None
    g = block[:8]
    if block != (g * 32)[:len(block)]:
        return None
    nonce = (g[1] << 8) | g[2]
    surface = g[3]
    lba = (g[4] << 8) | g[6]
    if g[7] != (0xE5 ^ g[1] ^ g[2] ^ g[3] ^ g[4] ^ g[6]) & 0xFF:
        return None
    return nonce, surface, lba


class Entry(object):
    __slots__ = ('dir', 'name', 'locked', 'load', 'exec_', 'length', 'start', 'body')

    def __init__(self, dir, name, locked, load, exec_, length, start, body=None):
        self.dir = dir            # one character
        self.name = name          # 1..7 characters
        self.locked = locked
        self.load = load          # 18 bits
        self.exec_ = exec_        # 18 bits
        self.length = length      # 18 bits
        self.start = start        # 10 bits
        self.body = body          # bytes of len length (truth)

    @property
    def nsectors(self):
        return (self.length + SECTOR - 1) // SECTOR

    @property
    def full(self):
        return '%s.%s' % (self.dir, self.name)

    def mixed(self):
        return (((self.exec_ >> 16) & 3) << 6) | (((self.length >> 16) & 3) << 4) | \
               (((self.load >> 16) & 3) << 2) | ((self.start >> 8) & 3)

    def brief(self):
        return {'name': self.full, 'locked': self.locked, 'load': '%05X' % self.load,
                'exec': '%05X' % self.exec_, 'len': '%05X' % self.length, 'start': '%03X' % self.start}


class Cat(object):
    """One catalogue (one volume).  `entries` is the catalogue order of the
    first fragment, `entries2` that of the second Watford fragment."""

    def __init__(self, title=b'', pad=0, cycle=0, boot=0, total=400, entries=None, entries2=None):
        self.title = title        # bytes, <= 12, no trailing blanks
        self.pad = pad            # 0x00 or 0x20 padding after the title
        self.cycle = cycle
        self.boot = boot
        self.total = total
        self.entries = entries or []
        self.entries2 = entries2  # None unless Watford

    def all_entries(self):
        return self.entries + (self.entries2 or [])

    def title_str(self):
        return self.title.decode('latin1')


def _fragment(title, pad, cycle, boot, total, entries, marker=False):
    s0 = bytearray(SECTOR)
    s1 = bytearray(SECTOR)
    if marker:
        s0[0:8] = b'\xAA' * 8
    else:
        t = title + bytes([pad]) * (12 - len(title))
        s0[0:8] = t[0:8]
        s1[0:4] = t[8:12]
    s1[4] = cycle
    s1[5] = 8 * len(entries)
    s1[6] = ((boot & 3) << 4) | ((total >> 8) & 3) | (((total >> 10) & 1) << 2)    # bit 2: Watford large disc (bit 10)
    s1[7] = total & 0xFF
    for i, e in enumerate(entries):
        off = 8 + 8 * i
        s0[off:off + 7] = e.name.encode('latin1').ljust(7, b' ')
        s0[off + 7] = (ord(e.dir) & 0x7F) | (0x80 if e.locked else 0)
        s1[off + 0] = e.load & 0xFF
        s1[off + 1] = (e.load >> 8) & 0xFF
        s1[off + 2] = e.exec_ & 0xFF
        s1[off + 3] = (e.exec_ >> 8) & 0xFF
        s1[off + 4] = e.length & 0xFF
        s1[off + 5] = (e.length >> 8) & 0xFF
        s1[off + 6] = e.mixed()
        s1[off + 7] = e.start & 0xFF
    return bytes(s0), bytes(s1)


class Volume(object):
    def __init__(self, label, origin, length, cat_lba, cat):
        self.label = label        # None or 'A'..'H'
        self.origin = origin      # first sector of the data region (surface lba)
        self.length = length      # sectors in the data region
        self.cat_lba = cat_lba    # where the catalogue lives (surface lba)
        self.cat = cat


class Surface(object):
    def __init__(self, variant, tracks, spt, volumes, nonce, sid=0, density=None):
        self.variant = variant
        self.tracks = tracks
        self.spt = spt
        self.volumes = volumes
        self.nonce = nonce
        self.sid = sid
        self.density = density or ('FM' if spt == 10 else 'MFM')
        self.extra = {}           # lba -> bytes forced into unowned sectors

    @property
    def nsectors(self):
        return self.tracks * self.spt

    def cat_sectors(self):
        """Sectors reserved for catalogue data at the start of the volume's
        numbering (0 for Opus: the catalogues live in track 0)."""
        return {'acorn': 2, 'watford': 4, 'opus': 0}[self.variant]

    def volume(self, label=None):
        for v in self.volumes:
            if v.label == label:
                return v
        if label is None:
            return self.volumes[0]
        raise KeyError(label)

    def owners(self):
        """lba -> ('cat', label) | ('file', label, Entry) | ('opus', 'disc-cat'|'reserved')"""
        own = {}
        if self.variant == 'opus':
            for i in range(8):
                own[2 * i] = ('catslot', i)
                own[2 * i + 1] = ('catslot', i)
            own[16] = ('opus', 'disc-cat')
            own[17] = ('opus', 'reserved')
            for v in self.volumes:
                own[v.cat_lba] = ('cat', v.label)
                own[v.cat_lba + 1] = ('cat', v.label)
        else:
            for s in range(self.cat_sectors()):
                own[s] = ('cat', None)
        for v in self.volumes:
            for e in v.cat.all_entries():
                for k in range(e.nsectors):
                    own[v.origin + e.start + k] = ('file', v.label, e)
        return own

    def image(self):
        n = self.nsectors
        img = bytearray(n * SECTOR)
        for lba in range(n):
            img[lba * SECTOR:(lba + 1) * SECTOR] = fingerprint(self.nonce, self.sid, lba)
        for lba, data in self.extra.items():
            img[lba * SECTOR:lba * SECTOR + len(data)] = data
        if self.variant == 'opus':
            # unused catalogue slots of track 0 stay fingerprinted
            s16 = bytearray(SECTOR)
            s16[0] = 0x20
            s16[1] = (n >> 8) & 0xFF
            s16[2] = n & 0xFF
            s16[3] = 18
            s16[4] = self.tracks
            for i, v in enumerate(self.volumes):
                s16[8 + 2 * i] = v.origin // 18
            img[16 * SECTOR:17 * SECTOR] = s16
            img[17 * SECTOR:18 * SECTOR] = bytes(SECTOR)
        for v in self.volumes:
            c = v.cat
            s0, s1 = _fragment(c.title, c.pad, c.cycle, c.boot, c.total, c.entries)
            img[v.cat_lba * SECTOR:(v.cat_lba + 1) * SECTOR] = s0
            img[(v.cat_lba + 1) * SECTOR:(v.cat_lba + 2) * SECTOR] = s1
            if self.variant == 'watford':
                s2, s3 = _fragment(c.title, c.pad, c.cycle, c.boot, c.total, c.entries2 or [], marker=True)
                img[2 * SECTOR:3 * SECTOR] = s2
                img[3 * SECTOR:4 * SECTOR] = s3
            for e in c.all_entries():
                if e.length:
                    a = (v.origin + e.start) * SECTOR
                    img[a:a + len(e.body)] = e.body[:max(0, len(img) - a)]
                    # slack after the end of the file in its last sector keeps
                    # the fingerprint bytes: a tool that delivers too many
                    # bytes delivers recognisably foreign ones.
        assert len(img) == n * SECTOR
        return bytes(img)

    def describe(self):
        return {'variant': self.variant, 'tracks': self.tracks, 'spt': self.spt,
                'volumes': [{'label': v.label, 'origin': v.origin, 'len': v.length, 'total': v.cat.total,
                             'title': v.cat.title_str(),
                             'files': [e.brief() for e in v.cat.all_entries()][:8],
                             'nfiles': len(v.cat.all_entries())} for v in self.volumes]}


# --------------------------------------------------------------------------
# random generation

INTERESTING_LENGTHS = [0, 1, 255, 256, 257, 511, 512, 513, 0xFFFF, 0x10000, 0x10001, 0x20000, 0x3FC00]


def rand_name(rng, alphabet, used=None, maxlen=7):
    while True:
        n = rng.randint(1, maxlen)
        if rng.random() < 0.25:
            n = maxlen
        nm = ''.join(rng.choice(alphabet) for _ in range(n))
        if nm != 'L':
            return nm


def unique_names(rng, count, alphabet=NAME_SAFE, dirs=DIRS_SAFE, nocase=True, maxlen=7):
    """count distinct (dir, name) pairs, distinct even when compared
    case-insensitively (so every file is addressable unambiguously)."""
    out = []
    seen = set()
    tries = 0
    while len(out) < count:
        tries += 1
        if tries > 10000:
            raise RuntimeError('name space exhausted')
        d = '$' if rng.random() < 0.5 else rng.choice(dirs)
        nm = rand_name(rng, alphabet, seen, maxlen)
        key = (d.lower(), nm.lower()) if nocase else (d, nm)
        if key in seen:
            continue
        seen.add(key)
        out.append((d, nm))
        # now and then a second name that differs from it only in bit 5 of a non-letter ('[' vs '{', '@' vs '`',
        # '^' vs '~' ...): the two are different files, whatever case folding the look-up uses
        if len(out) < count and rng.random() < 0.12:
            idxs = [i for i, ch in enumerate(nm) if not ch.isalpha() and chr(ord(ch) ^ 0x20) in alphabet]
            if idxs:
                i = rng.choice(idxs)
                tw = nm[:i] + chr(ord(nm[i]) ^ 0x20) + nm[i + 1:]
                k2 = (d.lower(), tw.lower()) if nocase else (d, tw)
                if k2 not in seen and tw != 'L':
                    seen.add(k2)
                    out.append((d, tw))
    return out


def rand_title(rng):
    n = rng.choice([0, 1, 5, 8, 9, 11, 12, rng.randint(0, 12)])
    chars = NAME_ALNUM + '-_+!'
    t = ''.join(rng.choice(chars) for _ in range(n))
    if n >= 3 and rng.random() < 0.3:
        k = rng.randint(1, n - 2)
        t = t[:k] + ' ' + t[k + 1:]
    return t.encode('latin1')


def rand_addr(rng):
    r = rng.random()
    if r < 0.2:
        return rng.choice([0, 1, 0xFFFF, 0x10000, 0x1FFFF, 0x20000, 0x2ABCD, 0x30000, 0x3FFFF, 0x31900, 0x38023])
    return rng.getrandbits(18)


def layout(rng, first, limit, nfiles, style=None, maxlen_sectors=None):
    """Choose non-overlapping extents in [first, limit).  Returns a list of
    (start, length_bytes) sorted by ascending start.  Zero-length files are
    placed where real DFS puts them: at the start sector of the file saved
    next (the next higher extent), or at the first free sector when they are
    the last file."""
    style = style or rng.choice(['packed', 'gaps', 'spread', 'edge', 'big', 'mixed'])
    space = limit - first
    ext = []
    if nfiles == 0 or space <= 0:
        return ext, style
    if style == 'big':
        # one large file (needs the 18-bit length), the rest small
        nbig = 1
    pos = first
    remaining = nfiles
    # decide the sector counts first
    counts = []
    for i in range(nfiles):
        r = rng.random()
        if style == 'big' and i == 0:
            c = rng.randint(min(space, 250), max(min(space, 250), min(space - (nfiles - 1), 1020)))
        elif r < 0.12:
            c = 0
        elif r < 0.6:
            c = 1
        elif r < 0.9:
            c = rng.randint(1, 4)
        else:
            c = rng.randint(1, 40)
        counts.append(c)
    if maxlen_sectors is not None:
        counts = [min(c, maxlen_sectors) for c in counts]
    while sum(counts) > space and any(c > 1 for c in counts):
        i = max(range(len(counts)), key=lambda k: counts[k])
        counts[i] = max(1, counts[i] // 2)
    while sum(counts) > space:
        i = max(range(len(counts)), key=lambda k: counts[k])
        counts[i] = 0
    rng.shuffle(counts)
    slack = space - sum(counts)
    # distribute slack into gaps according to style
    ngaps = len(counts) + 1
    gaps = [0] * ngaps
    if style == 'packed':
        gaps[-1] = slack
    elif style == 'edge':
        # last file ends exactly on the last sector; maybe a gap at the front
        g0 = rng.randint(0, slack) if rng.random() < 0.5 else slack
        gaps[0] = g0
        rest = slack - g0
        for _ in range(rest):
            gaps[rng.randrange(0, ngaps - 1)] += 1
    elif style == 'spread':
        for _ in range(min(slack, 4000)):
            gaps[rng.randrange(ngaps)] += 1
        if slack > 4000:
            gaps[rng.randrange(ngaps)] += slack - 4000
    else:
        left = slack
        for k in range(ngaps - 1):
            if left and rng.random() < 0.45:
                g = rng.randint(1, max(1, min(left, rng.choice([1, 2, 3, 10, 100, 300]))))
                gaps[k] = g
                left -= g
        gaps[-1] = left
    pos = first
    for k, c in enumerate(counts):
        pos += gaps[k]
        if c == 0:
            ext.append((pos, 0))
        else:
            r = rng.random()
            if r < 0.35:
                ln = c * SECTOR
            elif r < 0.5:
                ln = (c - 1) * SECTOR + 1
            elif r < 0.65:
                ln = c * SECTOR - 1
            else:
                ln = (c - 1) * SECTOR + rng.randint(1, SECTOR)
            ext.append((pos, ln))
        pos += c
    assert pos <= limit
    # zero-length files: start sector = start of the next non-empty extent
    # above them (or first free sector); recompute so they never sit inside
    # another file and keep ascending order.
    fixed = []
    for i, (s, ln) in enumerate(ext):
        if ln == 0:
            nxt = None
            for s2, l2 in ext[i + 1:]:
                if l2:
                    nxt = s2
                    break
            if nxt is None:
                # after every file: the first free sector
                hi = first
                for s2, l2 in ext:
                    if l2:
                        hi = max(hi, s2 + (l2 + SECTOR - 1) // SECTOR)
                nxt = min(hi, limit)      # on a full disc an empty file starts just beyond the last sector
            fixed.append((nxt, 0))
        else:
            fixed.append((s, ln))
    return fixed, style


def make_entries(rng, extents, names, body_rng=None, sweep=None):
    """extents ascending by start; returns Entries in the same order."""
    out = []
    brng = body_rng or rng
    for i, ((start, length), (d, nm)) in enumerate(zip(extents, names)):
        load = rand_addr(rng)
        ex = rand_addr(rng)
        if sweep is not None and i < len(sweep):
            # force the mixed byte: exec_hi, len_hi (only if it fits), load_hi
            m = sweep[i]
            ex = (ex & 0xFFFF) | (((m >> 6) & 3) << 16)
            load = (load & 0xFFFF) | (((m >> 2) & 3) << 16)
        body = gen_body(brng, length)
        out.append(Entry(d, nm, rng.random() < 0.3, load, ex, length, start, body))
    return out


def gen_body(rng, length):
    """file body: mostly random bytes; sometimes text with CR-terminated lines
    (short lines, empty lines, CR as the very last byte or missing, CR CR runs,
    CRs landing on sector boundaries), sometimes a single repeated byte"""
    if length == 0:
        return b''
    k = rng.random()
    if k < 0.72:
        return rng.randbytes(length)
    if k < 0.8:
        return bytes([rng.choice([0x0D, 0x00, 0xFF, 0x20, 0x7F, 0x0A])]) * length
    out = bytearray()
    maxline = rng.choice([0, 1, 3, 10, 40, 255])
    while len(out) < length:
        n = rng.randint(0, maxline)
        out += bytes(rng.choice(b'ABCDEFGHIJKLMNOPQRSTUVWXYZ 0123456789.,\x7f\x80\x0a\x09') for _ in range(n))
        out.append(0x0D)
    out = out[:length]
    if rng.random() < 0.5:
        out[-1] = rng.choice([0x0D, 0x41])
    for b in range(255, length, 256):
        if rng.random() < 0.3:
            out[b] = 0x0D          # CR as the last byte of a sector
    return bytes(out)


def catalogue_order(entries):
    """Real DFS keeps entries in descending start-sector order."""
    return sorted(entries, key=lambda e: (-e.start, 0 if e.length == 0 else 1))


def std_geometry(total, spt):
    """Smallest standard track count that holds `total` sectors (what a
    geometry 'large enough for the catalogue' means for a sector dump)."""
    for t in (35, 40, 80):
        if t * spt >= total:
            return t
    return None


def gen_surface(rng, variant=None, spt=None, nfiles=None, style=None, alphabet=NAME_SAFE,
                dirs=DIRS_SAFE, total=None, tracks=None, sid=0, nonce=None, sweep=None,
                maxlen_sectors=None, opus_nvols=None, watford_split=None):
    """A random well-formed surface."""
    variant = variant or rng.choice(['acorn', 'acorn', 'watford', 'opus'])
    nonce = rng.getrandbits(16) if nonce is None else nonce
    if variant == 'opus':
        spt = 18
        tracks_forced = tracks is not None
        tracks = tracks or rng.choice([35, 40, 80])
        nsec = tracks * 18
        nv = opus_nvols or rng.choice([1, 2, 3, 8, rng.randint(1, 8)])
        nv = min(nv, tracks - 1)
        # choose start tracks: volume A starts at track 1
        while True:
            cuts = sorted(rng.sample(range(2, tracks), nv - 1)) if nv > 1 else []
            starts = [1] + cuts
            ends = starts[1:] + [tracks]
            # the 10-bit total field limits a volume to 1023 sectors (56 tracks)
            if all((e - s) * 18 <= 1023 for s, e in zip(starts, ends)):
                break
            if nv == 1 and not tracks_forced:
                tracks = rng.choice([35, 40])
                nsec = tracks * 18
            else:
                nv = min(8, nv + 1) if (nv == 1 or rng.random() < 0.5) else nv
        vols = []
        for i, (s, e) in enumerate(zip(starts, ends)):
            vlen = (e - s) * 18
            nf = rng.choice([0, 1, 2, 5, 31, rng.randint(0, 31)]) if nfiles is None else nfiles
            nf = min(nf, 31)
            ext, st = layout(rng, 0, vlen, nf, style, maxlen_sectors)
            names = unique_names(rng, len(ext), alphabet, dirs)
            ents = make_entries(rng, ext, names, sweep=sweep)
            cat = Cat(rand_title(rng), rng.choice([0, 0x20]), rng.getrandbits(8), rng.randint(0, 3), vlen,
                      catalogue_order(ents))
            vols.append(Volume('ABCDEFGH'[i], s * 18, vlen, 2 * i, cat))
        return Surface('opus', tracks, 18, vols, nonce, sid, 'MFM')
    spt = spt or rng.choice([10, 10, 18])
    if total is None:
        if spt == 10:
            total = rng.choice([400, 800, 350, 400, 800, rng.randint(20, 800)])
        else:
            total = rng.choice([720, 630, 1000, 1023, rng.randint(40, 1023)])
    tracks = tracks or std_geometry(total, spt)
    first = 4 if variant == 'watford' else 2
    maxf = 62 if variant == 'watford' else 31
    if nfiles is None:
        nfiles = rng.choice([0, 1, 2, 3, 8, 31, maxf, rng.randint(0, maxf)])
    nfiles = min(nfiles, maxf)
    ext, st = layout(rng, first, total, nfiles, style, maxlen_sectors)
    names = unique_names(rng, len(ext), alphabet, dirs)
    ents = make_entries(rng, ext, names, sweep=sweep)
    title = rand_title(rng)
    pad = rng.choice([0, 0x20])
    cyc = rng.getrandbits(8)
    boot = rng.randint(0, 3)
    if variant == 'watford':
        # disc order: the first fragment holds the files lowest on the disc
        nonempty = [e for e in ents if e.length]
        k = watford_split if watford_split is not None else rng.choice(
            [0, len(ents), rng.randint(0, len(ents)), len(ents) // 2])
        k = max(len(ents) - 31, min(k, 31, len(ents)))
        e1, e2 = ents[:k], ents[k:]
        cat = Cat(title, pad, cyc, boot, total, catalogue_order(e1), catalogue_order(e2))
    else:
        cat = Cat(title, pad, cyc, boot, total, catalogue_order(ents))
    vol = Volume(None, 0, tracks * spt, 0, cat)
    return Surface(variant, tracks, spt, [vol], nonce, sid)


# --------------------------------------------------------------------------
# containers

def ssd_image(surfaces):
    """non-interleaved: side 0 then side 1"""
    return b''.join(s.image() for s in surfaces)


def dsd_image(s0, s1):
    a, b = s0.image(), s1.image()
    assert len(a) == len(b) and s0.spt == s1.spt
    spt = s0.spt
    tb = spt * SECTOR
    out = bytearray()
    for t in range(s0.tracks):
        out += a[t * tb:(t + 1) * tb]
        out += b[t * tb:(t + 1) * tb]
    return bytes(out)


def ext_for(surface, interleaved=False):
    if surface.spt == 10:
        return 'dsd' if interleaved else 'ssd'
    return 'ddd' if interleaved else 'sdd'


MMB_SLOT_BYTES = 204800
MMB_HEADER = 8192


def mmb_file(path, slots, header_boot=(0, 1, 2, 3), names=None):
    """slots: dict slot -> (status byte, image bytes or None).  Written as a
    sparse file of the full archive size."""
    table = bytearray(MMB_HEADER)
    table[0:4] = bytes(header_boot)
    for k in range(511):
        off = 16 + 16 * k
        st, img = slots.get(k, (0xFF, None))
        nm = (names or {}).get(k, b'')
        table[off:off + 12] = nm[:12].ljust(12, b'\0')
        table[off + 15] = st
    with open(path, 'wb') as f:
        f.write(table)
        for k, (st, img) in slots.items():
            if img is not None:
                f.seek(MMB_HEADER + k * MMB_SLOT_BYTES)
                f.write(img[:MMB_SLOT_BYTES])
        f.truncate(MMB_HEADER + 511 * MMB_SLOT_BYTES)
