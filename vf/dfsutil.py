"""Helpers shared by the dfs checks: container files for surfaces, command
invocation, unclean-termination screening."""
import gzip
import os
import random

from . import discmodel as dm
from .execu import run, clean_failure_key


def case_rng(seed, prop, spec):
    return random.Random('%s/%s/%r' % (seed, prop, spec))


def write_file(path, data):
    with open(path, 'wb') as f:
        f.write(data)


class Image(object):
    """An image file on disc plus what is attached where."""

    def __init__(self, path, surfaces, drives, kind):
        self.path = path
        self.surfaces = surfaces      # list of Surface
        self.drives = drives          # drive number of each surface (as the sole --file)
        self.kind = kind


def make_image(rng, scratch, kind=None, variant=None, name='img', gz=False, **kw):
    """kind: 'single' (ssd/sdd) or 'inter' (dsd/ddd, two surfaces)."""
    kind = kind or rng.choice(['single', 'single', 'inter'])
    if kind == 'single':
        s = dm.gen_surface(rng, variant=variant, **kw)
        data = s.image()
        ext = dm.ext_for(s)
        surfaces, drives = [s], [0]
    else:
        s0 = dm.gen_surface(rng, variant=variant, sid=0, **kw)
        kw2 = dict(kw)
        kw2.pop('spt', None)
        kw2.pop('tracks', None)
        kw2.pop('total', None)
        v1 = variant if variant == 'opus' or s0.variant == 'opus' else None
        if s0.variant == 'opus':
            s1 = dm.gen_surface(rng, variant='opus', tracks=s0.tracks, sid=1, **kw2)
        else:
            # same physical geometry on both sides
            tot = rng.choice([s0.volumes[0].cat.total, s0.tracks * s0.spt,
                              rng.randint(max(20, (s0.tracks * s0.spt * 3) // 4), s0.tracks * s0.spt)])
            tot = min(tot, 1023)
            if dm.std_geometry(tot, s0.spt) != s0.tracks:
                tot = min(s0.tracks * s0.spt, 1023)
            s1 = dm.gen_surface(rng, variant=rng.choice(['acorn', 'watford']), spt=s0.spt, total=tot,
                                tracks=s0.tracks, sid=1, **kw2)
        data = dm.dsd_image(s0, s1)
        ext = dm.ext_for(s0, interleaved=True)
        surfaces, drives = [s0, s1], [0, 2]
    path = os.path.join(scratch, '%s.%s' % (name, ext))
    if gz:
        path += '.gz'
        data = gzip.compress(data, rng.choice([1, 6, 9]))
    write_file(path, data)
    return Image(path, surfaces, drives, kind)


def dfs(binpath, image_paths, args, pre=(), **kw):
    argv = [binpath] + list(pre)
    for p in ([image_paths] if isinstance(image_paths, str) else image_paths):
        argv += ['--file', p]
    argv += list(args)
    return run(argv, **kw)


def screen(res, r, prop, what, files=None, allowed_rc=(0, 1, 2)):
    """Record an unclean termination (signal, sanitizer report, hang,
    unexpected status) as a violation; returns True when r is unclean."""
    k = clean_failure_key(r, allowed_rc)
    if k is None:
        return False
    res.violation('%s:%s' % (what, k), 'unclean termination (%s) during %s' % (k, what),
                  detail=r.brief(), files=files, argv=r.argv)
    return True


def spellings(rng, e, drive, vol_label, cur_dir='$', cur_drive=0, cur_vol=None):
    """Equivalent spellings of a file name that the documents define
    (doc/dfs.1 DFS FILE NAMES).  Directory letters keep their case."""
    def flip(s):
        r = rng.random()
        if r < 0.5:
            return s
        if r < 0.75:
            return s.lower()
        return s.upper()
    out = []
    dv = '%d%s' % (drive, vol_label or '')
    if e.dir == cur_dir and drive == cur_drive and (vol_label or None) == (cur_vol or None) \
            and not e.name.startswith('-'):
        out.append(flip(e.name))
    if drive == cur_drive and (vol_label or None) == (cur_vol or None) and e.dir != '-':
        out.append('%s.%s' % (e.dir, flip(e.name)))
    if e.dir == cur_dir:
        out.append(':%s.%s' % (dv, flip(e.name)))
    out.append(':%s.%s.%s' % (dv, e.dir, flip(e.name)))
    if vol_label == 'A':
        # on an Opus disc the drive number alone means volume A
        out.append(':%d.%s.%s' % (drive, e.dir, flip(e.name)))
        if drive == cur_drive and cur_vol is None and e.dir != '-':
            out.append('%s.%s' % (e.dir, flip(e.name)))
    return out
