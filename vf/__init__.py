"""Runtime-monitoring machinery for beebtools (properties C01-C19)."""
import os

VERIF = os.path.dirname(os.path.dirname(os.path.abspath(__file__)))
REPO = os.environ.get('VERIF_REPO', '/repo')
GUARD = 'BEEBTOOLS_VERIF'


class HarnessError(Exception):
    """A problem of the machinery itself (exit status 2, never a verdict)."""
