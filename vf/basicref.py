"""Reference lister and strict validator for tokenised BBC BASIC, written from
doc/bbcbasic.5 and doc/bbcbasic_to_text.1.  The uniform token rows are parsed
out of doc/bbcbasic.5 itself; the irregular tables are transcribed from it.
Validated against every golden listing and every file of testdata/invalid
(python3 -m vf.basicref)."""
import os
import re
import sys

from . import REPO, HarnessError

DOC = os.path.join(REPO, 'doc', 'bbcbasic.5')

def parse_uniform_tokens():
    """Tokens from the 'All Dialects Identical' style rows:  0x94|"ABS"  or 0xD4:"SOUND" """
    toks = {}
    for line in open(DOC, encoding='latin1'):
        m = re.match(r'^0x([0-9A-Fa-f]{2})[|:]"([^"]+)"\s*$', line.strip())
        if m:
            toks[int(m.group(1), 16)] = m.group(2)
    return toks

UNIFORM = parse_uniform_tokens()
if len(UNIFORM) < 100:
    raise HarnessError('could not parse the token tables of doc/bbcbasic.5 (%d rows)' % len(UNIFORM))

# dialect families
BE = {'6502', '32000', 'PDP11', 'ARM', 'Mac'}
LE = {'Z80', '8086', 'Windows', 'SDL', 'MacOSX'}
FAMILY = {'6502': '6502', '32000': '6502', 'PDP11': 'PDP11', 'Z80': 'Z80', '8086': 'Z80',
          'ARM': 'ARM', 'Mac': 'Mac', 'Windows': 'Windows', 'SDL': 'Windows', 'MacOSX': 'Windows'}

WINDOWS_LOW = {0x01: "CIRCLE", 0x02: "ELLIPSE", 0x03: "FILL", 0x04: "MOUSE", 0x05: "ORIGIN", 0x06: "QUIT",
               0x07: "RECTANGLE", 0x08: "SWAP", 0x09: "SYS", 0x0A: "TINT", 0x0B: "WAIT", 0x0C: "INSTALL",
               0x0E: "PRIVATE", 0x0F: "BY", 0x10: "EXIT"}
C9_CE = {  # 6502, Z80, ARM/Mac, Windows
    0xC9: ("LIST", "LIST", "WHEN", "WHEN"), 0xCA: ("NEW", "NEW", "OF", "OF"), 0xCB: ("OLD", "OLD", "ENDCASE", "ENDCASE"),
    0xCC: ("RENUMBER", "RENUMBER", "ELSE", "OTHERWISE"), 0xCD: ("SAVE", "SAVE", "ENDIF", "ENDIF"),
    0xCE: ("EDIT", "PUT", "ENDWHILE", "ENDWHILE")}
C6_C8_SINGLE = {0xC6: ("AUTO", "AUTO", None, "SUM"), 0xC7: ("DELETE", "DELETE", None, "WHILE"), 0xC8: ("LOAD", "LOAD", None, "CASE")}
COL = {'6502': 0, 'PDP11': 0, 'Z80': 1, 'ARM': 2, 'Mac': 2, 'Windows': 3}

EXT_C6 = {'ARM': {0x8E: "SUM", 0x8F: "BEAT"},
          'Mac': {0x8E: "SUM", 0x8F: "BEAT", 0x90: "ASK", 0x91: "ANSWER", 0x92: "SFOPENIN", 0x93: "SFOPENOUT",
                  0x94: "SFOPENUP", 0x95: "SFNAME$", 0x96: "MENU"}}
_c7_arm = ["APPEND", "AUTO", "CRUNCH", "DELETE", "EDIT", "HELP", "LIST", "LOAD", "LVAR", "NEW", "OLD", "RENUMBER", "SAVE",
           "TEXTLOAD", "TEXTSAVE", "TWIN", "TWINO", "INSTALL"]
_c7_mac = ["APPEND", "AUTO", "DELETE", "EDIT", "HELP", "LIST", "LOAD", "LVAR", "NEW", "OLD", "RENUMBER", "SAVE", "TWIN", "TWINO"]
EXT_C7 = {'ARM': {0x8E + i: k for i, k in enumerate(_c7_arm)}, 'Mac': {0x8E + i: k for i, k in enumerate(_c7_mac)}}
_c8_common = ["CASE", "CIRCLE", "FILL", "ORIGIN", "POINT", "RECTANGLE", "SWAP", "WHILE", "WAIT", "MOUSE", "QUIT"]
_c8_arm = _c8_common + ["SYS", "INSTALL", "LIBRARY", "TINT", "ELLIPSE", "BEATS", "TEMPO", "VOICES", "VOICE", "STEREO",
                        "OVERLAY", "MANDEL", "PRIVATE", "EXIT"]
EXT_C8 = {'ARM': {0x8E + i: k for i, k in enumerate(_c8_arm)}, 'Mac': {0x8E + i: k for i, k in enumerate(_c8_common)}}

class Invalid(Exception):
    pass


class Ambiguous(Exception):
    """the documents do not settle this input (or disagree with the repo's
    golden data): no verdict is drawn from it"""

def single_token(fam, b):
    """Return expansion string for byte b outside a string, or raise Invalid; None => special."""
    col = COL[fam]
    if b == 0x00: raise Invalid('byte 0')
    if b <= 0x10 and b != 0x0D:
        if fam == 'Windows': return WINDOWS_LOW[b]
        raise Invalid('token %02X' % b)
    if b == 0x0D: return chr(b)
    if 0x11 <= b <= 0x17: return chr(b)
    if 0x18 <= b <= 0x1F:
        if fam == 'Windows': raise Invalid('fast variable')
        return chr(b)
    if 0x20 <= b <= 0x7E: return chr(b)
    if b == 0x7F:
        if fam in ('ARM', 'Mac'): return "OTHERWISE"
        return None  # AMBIGUOUS: doc says invalid, golden token map says identity
    if b == 0x8D: return None
    if b in C6_C8_SINGLE:
        v = C6_C8_SINGLE[b][col]
        return v  # None => extension
    if b in C9_CE: return C9_CE[b][col]
    if b in UNIFORM: return UNIFORM[b]
    raise Invalid('no mapping for %02X' % b)

def decode_line_number(b1, b2, b3):
    return (((b3 ^ (b1 << 4)) & 0xFF) << 8) | ((b2 ^ ((b1 << 2) & 0xC0)) & 0xFF)

def list_line(fam, number, data, listo, state):
    out = bytearray()
    out += (b'%5d' % number) if number else b'     '
    if listo & 1: out += b' '
    # tokens outside strings
    toks = []  # (kind)
    body = bytearray()
    i = 0; in_str = False
    opens = closes = 0
    n = len(data)
    while i < n:
        b = data[i]; i += 1
        if b == 0: raise Invalid('NUL in line')
        if in_str:
            body.append(b)
            if b == 0x22: in_str = False
            continue
        if b == 0x22:
            body.append(b); in_str = True; continue
        if b == 0x8D:
            if n - i < 3: raise Invalid('line number cut off')
            if state.get('strict'):
                b1, b2, b3 = data[i], data[i+1], data[i+2]
                t = decode_line_number(b1, b2, b3)
                lo_, hi_ = t & 0xFF, t >> 8
                canon = ((((lo_ & 0xC0) >> 2) | ((hi_ & 0xC0) >> 4)) ^ 0x54, (lo_ & 0x3F) | 0x40, (hi_ & 0x3F) | 0x40)
                if (b1, b2, b3) != canon:
                    raise Ambiguous('0x8D operand bytes that no tokeniser produces')
            body += b'%d' % decode_line_number(data[i], data[i+1], data[i+2]); i += 3; continue
        if fam == 'PDP11' and b == 0xC8:
            if i >= n: raise Invalid('C8 at eol')
            if data[i] == 0x98: body += b'QUIT'; i += 1
            else: body += b'LOAD'
            continue
        if fam in ('ARM', 'Mac') and b in (0xC6, 0xC7, 0xC8):
            if i >= n: raise Invalid('ext at eol')
            m = {0xC6: EXT_C6, 0xC7: EXT_C7, 0xC8: EXT_C8}[b][fam]
            if data[i] not in m: raise Invalid('bad ext %02X %02X' % (b, data[i]))
            body += m[data[i]].encode(); i += 1; continue
        if b == 0x7F and fam not in ('ARM', 'Mac'):
            if state.get('strict'):
                raise Ambiguous('0x7F outside ARM/Mac')
            body.append(b); continue  # ambiguous; follows the golden token map
        if b == 0xFB and fam == 'Mac' and state.get('strict'):
            raise Ambiguous('0xFB for Mac')
        s = single_token(fam, b)
        body += s.encode('latin1')
        if b == 0xE3 and listo & 2: opens += 1
        if b == 0xED and listo & 2: closes += 1
        if b == 0xF5 and listo & 4: opens += 1
        if b == 0xFD and listo & 4: closes += 1
    state['indent'] -= 2 * closes
    if state['indent'] < 0:
        state['went_negative'] = True
        if state.get('clamp'):
            state['indent'] = 0
    if state['indent'] > 0: out += b' ' * state['indent']
    out += body + b'\n'
    state['indent'] += 2 * opens
    return bytes(out)

def list_program(dialect, data, listo, strict=False, clamp=False, info=None):
    """Returns listing bytes or raises Invalid.  With strict=True inputs the
    documents leave open raise Ambiguous instead of being listed."""
    fam = FAMILY[dialect]
    out = bytearray(); state = {'indent': 0, 'strict': strict, 'clamp': clamp}
    if info is not None:
        info['state'] = state
    if len(data) == 0: return b''
    p = 0
    if dialect in BE:
        while True:
            if p >= len(data): raise Invalid('premature eof')
            if data[p] != 0x0D: raise Invalid('bad start')
            p += 1
            if p >= len(data): raise Invalid('premature eof')
            hi = data[p]; p += 1
            if hi == 0xFF:
                if strict and p < len(data):
                    raise Ambiguous('bytes after the end marker')
                return bytes(out)   # nothing should be read after the marker
            if p + 2 > len(data): raise Invalid('premature eof')
            lo = data[p]; ln = data[p+1]; p += 2
            if ln < 4: raise Invalid('short line')
            if p + ln - 4 > len(data): raise Invalid('premature eof in line')
            out += list_line(fam, hi * 256 + lo, data[p:p+ln-4], listo, state); p += ln - 4
    else:
        while True:
            if p >= len(data): raise Invalid('premature eof')
            ln = data[p]; p += 1
            if ln == 0:
                if data[p:p+2] != b'\xff\xff': raise Invalid('bad eof marker')
                if strict and p + 2 < len(data):
                    raise Ambiguous('bytes after the end marker')
                return bytes(out)
            if ln < 3: raise Invalid('short line')
            if p + 2 > len(data): raise Invalid('premature eof')
            lo = data[p]; hi = data[p+1]; p += 2
            body = data[p:p+ln-3]
            if len(body) < ln - 3: raise Invalid('premature eof in line')
            p += ln - 3
            if ln - 3 == 0:
                if strict:
                    raise Ambiguous('little-endian line of length 3')
                continue   # AMBIGUOUS: length-3 line (no CR)
            if body[-1] != 0x0D: raise Invalid('missing CR')
            out += list_line(fam, hi * 256 + lo, body[:-1], listo, state)

if __name__ == '__main__':
    import subprocess, glob, os
    ok = bad = 0
    for g in sorted(glob.glob(REPO + '/basic/testdata/golden/*/*')):
        dialect = g.split('/')[-2]; base = os.path.basename(g)
        m = re.match(r'(.*)_listo(\d)\.(txt|bin)$', base)
        inp = REPO + '/basic/testdata/inputs/%s/%s' % (dialect, m.group(1))
        data = open(inp, 'rb').read()
        try:
            got = list_program(dialect, data, int(m.group(2)))
        except Invalid as e:
            got = b'INVALID: ' + str(e).encode()
        exp = open(g, 'rb').read()
        if got == exp: ok += 1
        else:
            bad += 1; print('MISMATCH', g)
            for a, b in zip(got.split(b'\n'), exp.split(b'\n')):
                if a != b: print('  got', a[:100]); print('  exp', b[:100]); break
    print('golden ok', ok, 'bad', bad)
    # invalid corpus: must be Invalid
    for f in sorted(glob.glob(REPO + '/basic/testdata/invalid/*/*')):
        dialect = f.split('/')[-2]
        try:
            list_program(dialect, open(f, 'rb').read(), 7); print('ACCEPTED(!)', f)
        except Invalid as e:
            pass
    print(len(UNIFORM), 'uniform tokens parsed from the man page')
