"""FM / MFM track encoders (IBM 3740 / System 34), HFE v1/v3 and HxC MFM
writers, damage injectors and an independent reference scanner.

A cell stream is a bytearray holding one 0/1 value per flux cell in time
order.  Facts the writers rely on (established against the real tool, see
DESIGN.md Appendix A): HFE bytes are LSB-first in time; FM is stored in HFE
at double rate (cell in the odd bit positions); side data alternate in
256-byte blocks; v3 opcodes are the bit-reversal of 0xF0..0xF4 in the file;
HxC .mfm bytes are MSB-first.
"""
import struct


def crc16(data, crc=0xFFFF):
    for b in data:
        crc ^= b << 8
        for _ in range(8):
            crc = ((crc << 1) ^ 0x1021) & 0xFFFF if crc & 0x8000 else (crc << 1) & 0xFFFF
    return crc


_CRC_TAB = []
for _i in range(256):
    _c = _i << 8
    for _ in range(8):
        _c = ((_c << 1) ^ 0x1021) & 0xFFFF if _c & 0x8000 else (_c << 1) & 0xFFFF
    _CRC_TAB.append(_c)


def crc16_fast(data, crc=0xFFFF):
    tab = _CRC_TAB
    for b in data:
        crc = ((crc << 8) & 0xFFFF) ^ tab[((crc >> 8) ^ b) & 0xFF]
    return crc


def _cells16(v):
    return bytes((v >> i) & 1 for i in range(15, -1, -1))


def _fm_cells(data, clock=0xFF):
    v = 0
    for i in range(7, -1, -1):
        v = (v << 2) | (((clock >> i) & 1) << 1) | ((data >> i) & 1)
    return _cells16(v)


FM_TAB = [_fm_cells(b) for b in range(256)]
FM_IDAM = _fm_cells(0xFE, 0xC7)
FM_DAM = _fm_cells(0xFB, 0xC7)
FM_DDAM = _fm_cells(0xF8, 0xC7)
FM_IAM = _fm_cells(0xFC, 0xD7)


def _mfm_cells(data, prev):
    out = bytearray()
    for i in range(7, -1, -1):
        d = (data >> i) & 1
        out.append(0 if (prev or d) else 1)
        out.append(d)
        prev = d
    return bytes(out)


MFM_TAB = [[_mfm_cells(b, p) for b in range(256)] for p in (0, 1)]
MFM_A1 = _cells16(0x4489)
MFM_C2 = _cells16(0x5224)


class Track(object):
    """cell stream under construction, with the positions of what was written"""

    def __init__(self):
        self.c = bytearray()
        self.pos = {}

    def fm(self, bs):
        tab = FM_TAB
        c = self.c
        for b in bs:
            c += tab[b]

    def mfm(self, bs):
        c = self.c
        tab = MFM_TAB
        for b in bs:
            prev = c[-1] if c else 0
            c += tab[prev][b]


def fm_track(cyl, head, sectors, order=None, gap1=16, gap3=21, sync=6, gap2=11, total_bytes=None,
             index_mark=False, dam=0xFB, size_code=1, gap4_min=0, deleted=(), id_override=None, orphans=None):
    """sectors: dict record -> bytes.  Returns Track.  id_override: record -> (c, h, r, n) written in the ID
    field instead of the natural address (CRC valid).  orphans: record -> record number of a stale sector ID
    (good CRC, no data record) written before that record's own ID and further from it than the controller's ID-to-data-mark window (FM 30, MFM 43 bytes), so that the next mark after the stale ID cannot be taken for its record."""
    t = Track()
    if index_mark:
        t.fm([0xFF] * gap1)
        t.fm([0] * sync)
        t.c += FM_IAM
    t.fm([0xFF] * gap1)
    order = order if order is not None else sorted(sectors)
    for r in order:
        p = {}
        if orphans and r in orphans:
            t.fm([0] * sync)
            t.c += FM_IDAM
            oh = [cyl, head, orphans[r], size_code]
            c = crc16_fast([0xFE] + oh)
            t.fm(oh + [c >> 8, c & 0xFF])
            t.fm([0xFF] * max(gap3, 31))
        t.fm([0] * sync)
        p['idam'] = len(t.c)
        t.c += FM_IDAM
        hdr = list(id_override[r]) if (id_override and r in id_override) else [cyl, head, r, size_code]
        c = crc16_fast([0xFE] + hdr)
        p['idfield'] = len(t.c)
        t.fm(hdr + [c >> 8, c & 0xFF])
        p['idend'] = len(t.c)
        t.fm([0xFF] * gap2)
        t.fm([0] * sync)
        p['dam'] = len(t.c)
        mark = 0xF8 if r in deleted else dam
        t.c += FM_DDAM if mark == 0xF8 else FM_DAM
        d = list(sectors[r])
        c = crc16_fast([mark] + d)
        p['data'] = len(t.c)
        t.fm(d)
        p['crc'] = len(t.c)
        t.fm([c >> 8, c & 0xFF])
        p['end'] = len(t.c)
        t.pos[r] = p
        t.fm([0xFF] * gap3)
    t.fm([0xFF] * gap4_min)
    if total_bytes:
        while len(t.c) + 16 <= total_bytes * 16:
            t.c += FM_TAB[0xFF]
    return t


def mfm_track(cyl, head, sectors, order=None, gap1=32, gap3=54, sync=12, gap2=22, total_bytes=None,
              index_mark=False, dam=0xFB, size_code=1, gap4_min=0, deleted=(), id_override=None, orphans=None):
    t = Track()
    t.mfm([0x4E] * gap1)
    if index_mark:
        t.mfm([0] * sync)
        t.c += MFM_C2 * 3
        t.mfm([0xFC])
        t.mfm([0x4E] * gap1)
    order = order if order is not None else sorted(sectors)
    for r in order:
        p = {}
        if orphans and r in orphans:
            t.mfm([0] * sync)
            t.c += MFM_A1 * 3
            oh = [0xFE, cyl, head, orphans[r], size_code]
            c = crc16_fast([0xA1] * 3 + oh)
            t.mfm(oh + [c >> 8, c & 0xFF])
            t.mfm([0x4E] * max(gap3, 44))
        t.mfm([0] * sync)
        p['idam'] = len(t.c)
        t.c += MFM_A1 * 3
        hdr = [0xFE] + (list(id_override[r]) if (id_override and r in id_override) else [cyl, head, r, size_code])
        c = crc16_fast([0xA1] * 3 + hdr)
        p['idfield'] = len(t.c)
        t.mfm(hdr + [c >> 8, c & 0xFF])
        p['idend'] = len(t.c)
        t.mfm([0x4E] * gap2)
        t.mfm([0] * sync)
        p['dam'] = len(t.c)
        t.c += MFM_A1 * 3
        mark = 0xF8 if r in deleted else dam
        d = [mark] + list(sectors[r])
        c = crc16_fast([0xA1] * 3 + d)
        p['data'] = len(t.c) + 16
        t.mfm(d)
        p['crc'] = len(t.c)
        t.mfm([c >> 8, c & 0xFF])
        p['end'] = len(t.c)
        t.pos[r] = p
        t.mfm([0x4E] * gap3)
    t.mfm([0x4E] * gap4_min)
    if total_bytes:
        while len(t.c) + 16 <= total_bytes * 16:
            t.mfm([0x4E])
    return t


_ASCII = bytes([0x30, 0x31]) + bytes(254)
_REV = bytes(int('{:08b}'.format(b)[::-1], 2) for b in range(256))


def pack_msb_first(cells):
    n = len(cells)
    if n == 0:
        return b''
    pad = (-n) % 8
    s = bytes(cells).translate(_ASCII) + b'0' * pad
    return int(s, 2).to_bytes((n + pad) // 8, 'big')


def pack_lsb_first(cells):
    return pack_msb_first(cells).translate(_REV)


def unpack_lsb_first(data, ncells=None):
    out = bytearray()
    for b in data:
        for i in range(8):
            out.append((b >> i) & 1)
    return out if ncells is None else out[:ncells]


def fm_to_hfe_cells(cells):
    """HFE stores FM at double cell rate: each FM cell -> (0, cell)."""
    out = bytearray(2 * len(cells))
    out[1::2] = cells
    return out


def rev8(b):
    return _REV[b]


OP_NOP, OP_SETINDEX, OP_SETBITRATE, OP_SKIPBITS, OP_RAND = 0xF0, 0xF1, 0xF2, 0xF3, 0xF4


def insert_v3_opcodes(r, raw, n=None, kinds=None, positions=None, skip_values=None):
    """Insert HFEv3 opcodes between the bytes of a packed (LSB-first) track.
    SKIPBITS k is followed by a carrier byte whose first k time-bits are junk;
    a byte is carried across two SKIPBITS so the cell stream is unchanged.
    Returns (bytes, list of (byte position, opcode name, operand))."""
    raw = bytearray(raw)
    n = r.randrange(0, 12) if n is None else n
    kinds = kinds or ['nop', 'setindex', 'setbitrate', 'skipbits']
    if len(raw) < 40:
        return bytes(raw), []
    pts = sorted(positions if positions is not None else r.sample(range(16, len(raw) - 16), min(n, len(raw) - 32)),
                 reverse=True)
    log = []
    for at in pts:
        k = r.choice(kinds)
        if k == 'nop':
            raw[at:at] = bytes([rev8(OP_NOP)])
            log.append((at, 'NOP', None))
        elif k == 'setindex':
            raw[at:at] = bytes([rev8(OP_SETINDEX)])
            log.append((at, 'SETINDEX', None))
        elif k == 'setbitrate':
            v = r.randrange(256)
            raw[at:at] = bytes([rev8(OP_SETBITRATE), rev8(v)])
            log.append((at, 'SETBITRATE', v))
        else:
            nskip = r.choice(skip_values) if skip_values else r.randrange(0, 8)
            nxt = raw[at]
            if nskip == 0:
                raw[at:at] = bytes([rev8(OP_SKIPBITS), rev8(0)])
            else:
                a = 8 - nskip
                first_bits = nxt & ((1 << a) - 1)
                rest_bits = nxt >> a
                c1 = r.randrange(1 << nskip) | (first_bits << nskip)
                c2 = r.randrange(1 << a) | (rest_bits << a)
                raw[at:at + 1] = bytes([rev8(OP_SKIPBITS), rev8(nskip), c1, rev8(OP_SKIPBITS), rev8(a), c2])
            log.append((at, 'SKIPBITS', nskip))
    return bytes(raw), log


def hfe_file(tracks_side0, tracks_side1=None, encoding=2, version=1, lut_exact=False, pad_last=True):
    """tracks_sideN: list of packed byte strings (LSB-first, v3 opcodes already
    inserted).  encoding: 0 = ISOIBM MFM, 2 = ISOIBM FM."""
    ntracks = len(tracks_side0)
    nsides = 2 if tracks_side1 is not None else 1
    hdr = bytearray(b'\xFF' * 512)
    hdr[0:8] = b'HXCPICFE' if version == 1 else b'HXCHFEV3'
    hdr[8] = 0
    hdr[9] = ntracks
    hdr[10] = nsides
    hdr[11] = encoding
    hdr[12:14] = struct.pack('<H', 250)
    hdr[14:16] = struct.pack('<H', 300)
    hdr[16] = 7
    hdr[17] = 1
    hdr[18:20] = struct.pack('<H', 1)
    hdr[20] = 0xFF
    for i in range(21, 26):
        hdr[i] = 0xFF
    lut = bytearray(b'\xFF' * 512)
    body = bytearray()
    off_blocks = 2
    fill = 0x55 if encoding == 0 else 0x11     # benign filler: no sync, no opcode
    for t in range(ntracks):
        s0 = tracks_side0[t]
        s1 = tracks_side1[t] if tracks_side1 is not None else b''
        n = max(len(s0), len(s1))
        nblk = (n + 255) // 256
        s0p = s0.ljust(nblk * 256, bytes([fill]))
        s1p = s1.ljust(nblk * 256, bytes([fill]))
        tb = bytearray()
        for b in range(nblk):
            tb += s0p[b * 256:(b + 1) * 256]
            tb += s1p[b * 256:(b + 1) * 256]
        # The LUT length counts the bytes of both sides (2 * per-side length, the
        # HxC convention); it need not be a multiple of 512 although the data
        # are stored in whole 512-byte blocks.
        tlen = len(tb)
        if lut_exact:
            tlen = 2 * n
        lut[t * 4:t * 4 + 4] = struct.pack('<HH', off_blocks, tlen)
        body += tb
        off_blocks += len(tb) // 512
        last_used = 2 * n if nsides == 2 else (n // 256) * 512 + (n % 256)
        last_total = len(tb)
    if not pad_last and ntracks:
        # the file ends with the last byte in use: the final 512-byte block is not padded out
        cutoff = last_total - ((nblk - 1) * 512 + (256 + (n % 256 or 256) if nsides == 2 else (n % 256 or 256)))
        if cutoff > 0:
            body = body[:len(body) - cutoff]
    return bytes(hdr) + bytes(lut) + bytes(body)


def hxcmfm_file(tracks, ntracks, nsides=1, shuffle=None):
    """tracks: dict (track, side) -> packed bytes (MSB-first)"""
    hdr = bytearray(19)
    hdr[0:7] = b'HXCMFM\0'
    hdr[7:9] = struct.pack('<H', ntracks)
    hdr[9] = nsides
    hdr[10:12] = struct.pack('<H', 300)
    hdr[12:14] = struct.pack('<H', 250)
    hdr[14] = 4
    hdr[15:19] = struct.pack('<I', 19)
    keys = sorted(tracks)
    meta = bytearray()
    off = 19 + 11 * len(keys)
    off = (off + 511) // 512 * 512
    body = bytearray()
    for (t, s) in keys:
        d = tracks[(t, s)]
        meta += struct.pack('<HBII', t, s, len(d), off + len(body))
        body += d
        body += bytes((-len(body)) % 512)
    out = bytes(hdr) + bytes(meta)
    return out.ljust(off, b'\0') + bytes(body)


class FluxParams(object):
    """legal recording parameters chosen at random"""

    def __init__(self, r, enc, spt, tight=None):
        self.enc = enc
        self.tight = (r.random() < 0.35) if tight is None else tight
        if enc == 'fm':
            self.gap1 = r.randrange(8, 40)
            self.gap3 = r.randrange(8, 40) if spt <= 10 else r.randrange(6, 14)
            self.sync = r.randrange(4, 9)
            self.gap2 = 11
            # a controller looks for the data mark within 30 bytes (FM) / 43 bytes (MFM) of the ID field: any gap 2
            # that keeps the mark inside that window is legal; FM goes up to the window exactly
            self.wide_gap2 = r.random() < 0.3
            if self.wide_gap2:
                self.gap2 = (30 - self.sync) if r.random() < 0.6 else r.randrange(12, 30 - self.sync + 1)
            if self.tight:
                self.gap3 = r.choice([6, 8, 10])
        else:
            self.gap1 = r.randrange(16, 80)
            self.gap3 = r.randrange(16, 80) if spt <= 16 else r.randrange(12, 50)
            self.sync = r.randrange(10, 15)
            self.gap2 = 22
            self.wide_gap2 = r.random() < 0.3
            if self.wide_gap2:
                # mark byte within 43 bytes: gap 2 + sync + three A1 bytes; one byte of margin is kept
                self.gap2 = r.randrange(23, 39 - self.sync + 1)
            if self.tight:
                self.gap3 = r.choice([10, 12, 16])
        self.index_mark = r.random() < 0.5
        self.order_kind = r.choice(['sequential', 'shuffle', 'interleave2', 'skew'])
        self.gap4 = 0 if self.tight else r.choice([0, 1, 5, 40, r.randrange(0, 200)])

    def order(self, r, spt, track):
        o = list(range(spt))
        if self.order_kind == 'shuffle':
            r.shuffle(o)
        elif self.order_kind == 'interleave2':
            o = o[0::2] + o[1::2]
        elif self.order_kind == 'skew':
            k = (track * 3) % spt
            o = o[k:] + o[:k]
        return o

    def describe(self):
        return {'enc': self.enc, 'gap1': self.gap1, 'gap2': self.gap2, 'gap3': self.gap3, 'sync': self.sync,
                'index_mark': self.index_mark, 'order': self.order_kind, 'gap4': self.gap4, 'tight': self.tight}


def encode_surface(r, image, tracks, spt, enc, head, params, track_hook=None):
    """image: tracks*spt*256 bytes of one side -> list of Track objects"""
    out = []
    for t in range(tracks):
        secs = {rr: image[(t * spt + rr) * 256:(t * spt + rr + 1) * 256] for rr in range(spt)}
        order = params.order(r, spt, t)
        fn = fm_track if enc == 'fm' else mfm_track
        tr = fn(t, head, secs, order=order, gap1=params.gap1, gap3=params.gap3, sync=params.sync, gap2=params.gap2,
                index_mark=params.index_mark, gap4_min=params.gap4)
        if track_hook:
            track_hook(t, tr)
        out.append(tr)
    return out


# ---------------------------------------------------------------------------
# damage injectors (operate on Track.c in place, keep Track.pos roughly valid
# by recording the cumulative shift)

def flip(cells, at):
    if 0 <= at < len(cells):
        cells[at] ^= 1


def zero_run(cells, a, b):
    for i in range(max(0, a), min(len(cells), b)):
        cells[i] = 0


def insert_cell(cells, at, v=0):
    cells[at:at] = bytes([v])


def delete_cell(cells, at):
    del cells[at:at + 1]


# ---------------------------------------------------------------------------
# independent reference scanner: every CRC-valid ID field and data field at
# every cell offset (no sync / clock requirements: a superset of what any
# decoder may legitimately find)

def _bits_to_bytes(cells, start, n, step=2):
    """n bytes from data bits at start, start+step, ..."""
    out = bytearray()
    pos = start
    for _ in range(n):
        v = 0
        for _ in range(8):
            v = (v << 1) | cells[pos]
            pos += step
        out.append(v)
    return bytes(out)


def scan_fm(cells, sizes=(128, 256, 512, 1024)):
    """-> (ids, datas): ids = list of (cell offset of mark, (c,h,r,n));
    datas = list of (cell offset of mark, bytes) for data marks FB (and F8 as
    ('deleted'))"""
    n = len(cells)
    s = bytes(cells).translate(_ASCII)
    ids, datas = [], []
    pat_id = _cells16_str(0xF57E)
    pat_dm = _cells16_str(0xF56F)
    pat_dd = _cells16_str(0xF56A)
    start = 0
    while True:
        i = s.find(pat_id, start)
        if i < 0:
            break
        start = i + 1
        if i + 16 + 6 * 16 <= n:
            f = _bits_to_bytes(cells, i + 17, 6)
            if crc16_fast(b'\xFE' + f) == 0:
                ids.append((i, tuple(f[:4])))
    for pat, mark, deleted in ((pat_dm, 0xFB, False), (pat_dd, 0xF8, True)):
        start = 0
        while True:
            i = s.find(pat, start)
            if i < 0:
                break
            start = i + 1
            for size in sizes:
                if i + 16 + (size + 2) * 16 <= n:
                    f = _bits_to_bytes(cells, i + 17, size + 2)
                    if crc16_fast(bytes([mark]) + f) == 0:
                        datas.append((i, f[:size], deleted))
    return ids, datas


def _cells16_str(v):
    return bytes(0x30 + ((v >> i) & 1) for i in range(15, -1, -1))


def scan_mfm(cells, sizes=(128, 256, 512, 1024)):
    n = len(cells)
    s = bytes(cells).translate(_ASCII)
    ids, datas = [], []
    a1 = _cells16_str(0x4489)
    start = 0
    while True:
        i = s.find(a1, start)
        if i < 0:
            break
        start = i + 1
        # the byte following a sync word decides; any number of preceding A1 accepted
        j = i + 16
        if j + 16 > n:
            continue
        mark = _bits_to_bytes(cells, j + 1, 1)[0]
        if mark == 0xFE and j + 7 * 16 <= n:
            f = _bits_to_bytes(cells, j + 1, 7)
            if crc16_fast(b'\xA1\xA1\xA1' + f) == 0:
                ids.append((i, tuple(f[1:5])))
        elif mark in (0xFB, 0xF8):
            for size in sizes:
                if j + (size + 3) * 16 <= n:
                    f = _bits_to_bytes(cells, j + 1, size + 3)
                    if crc16_fast(b'\xA1\xA1\xA1' + f) == 0:
                        datas.append((i, f[1:1 + size], mark == 0xF8))
    return ids, datas
