"""Build variants of /repo's *current working tree* (hooks on).

Each variant lives in /verif/build/<variant> (git-ignored).  ensure() runs
cmake when needed and always runs ninja, under an flock, so concurrent checks
share a build and an edited source file is always recompiled.
"""
import fcntl
import os
import subprocess
import sys
import time

from . import VERIF, REPO, GUARD, HarnessError

BUILD_ROOT = os.environ.get('VERIF_BUILD_ROOT', os.path.join(VERIF, 'build'))

_SAN = ('-fsanitize=address,undefined -fno-sanitize-recover=all '
        '-fno-omit-frame-pointer')
_GLIBCXX = '-D_GLIBCXX_ASSERTIONS -D_GLIBCXX_SANITIZE_VECTOR'
_HOOK = '-D' + GUARD

VARIANTS = {
    # work-horse: pinned configuration (NDEBUG) + memory/UB monitors
    'san': dict(cc='gcc', cxx='g++',
                c='-O1 -g -DNDEBUG %s %s' % (_HOOK, _SAN),
                cxxf='-O1 -g -DNDEBUG %s %s %s' % (_HOOK, _SAN, _GLIBCXX)),
    # documented default build (assertions on) + monitors
    'sanassert': dict(cc='gcc', cxx='g++',
                      c='-O1 -g %s %s' % (_HOOK, _SAN),
                      cxxf='-O1 -g %s %s %s' % (_HOOK, _SAN, _GLIBCXX)),
    # what users run (pinned configuration: RelWithDebInfo)
    'rel': dict(cc='gcc', cxx='g++', c='-O2 -g -DNDEBUG ' + _HOOK,
                cxxf='-O2 -g -DNDEBUG ' + _HOOK),
    # the documented default `cmake ..` build: assertions on, no sanitizer
    'dbg': dict(cc='gcc', cxx='g++', c='-O2 -g ' + _HOOK, cxxf='-O2 -g ' + _HOOK),
    # asserts evaluated but never fatal
    'asserteval': dict(cc='gcc', cxx='g++',
                       c='-O2 -g %s -I%s/shim -include %s/shim/assert.h' % (_HOOK, VERIF, VERIF),
                       cxxf='-O2 -g %s -I%s/shim' % (_HOOK, VERIF)),
    # uninitialised locals get a recognisable pattern
    'pattern': dict(cc='gcc', cxx='g++',
                    c='-O2 -g -DNDEBUG -ftrivial-auto-var-init=pattern ' + _HOOK,
                    cxxf='-O2 -g -DNDEBUG -ftrivial-auto-var-init=pattern ' + _HOOK),
    # MemorySanitizer for the pure-C tool only
    'msan': dict(cc='clang', cxx='clang++',
                 c='-O1 -g -DNDEBUG %s -fsanitize=memory -fno-omit-frame-pointer '
                   '-fsanitize-memory-track-origins' % _HOOK,
                 cxxf='-O1 -g -DNDEBUG ' + _HOOK, targets=['bbcbasic_to_text']),
}


# VERIF_COVERAGE=1 (used by bin/coverage only, never by a registered check): every gcc variant is also built
# with --coverage, so that the lines each check's workload reaches can be measured
if os.environ.get('VERIF_COVERAGE'):
    for _n, _v in VARIANTS.items():
        if _v['cc'] == 'gcc':
            _v['c'] += ' --coverage'
            _v['cxxf'] += ' --coverage'


def _sh(cmd, cwd=None, log=None):
    p = subprocess.run(cmd, cwd=cwd, stdout=subprocess.PIPE, stderr=subprocess.STDOUT)
    if log is not None:
        log.write(p.stdout)
    return p.returncode, p.stdout


def ensure(variant, targets=None, quiet=True):
    """Build (or refresh) a variant; returns {'dfs': path, 'basic': path}."""
    v = VARIANTS[variant]
    targets = targets or v.get('targets') or ['dfs', 'bbcbasic_to_text']
    os.makedirs(BUILD_ROOT, exist_ok=True)
    bdir = os.path.join(BUILD_ROOT, variant)
    lock = open(os.path.join(BUILD_ROOT, variant + '.lock'), 'w')
    fcntl.flock(lock, fcntl.LOCK_EX)
    try:
        stamp = os.path.join(bdir, '.verif-flags')
        want = '%s|%s|%s|%s|%s' % (v['cc'], v['cxx'], v['c'], v['cxxf'], REPO)
        have = open(stamp).read() if os.path.exists(stamp) else None
        if have != want or not os.path.exists(os.path.join(bdir, 'build.ninja')):
            if os.path.isdir(bdir):
                subprocess.run(['rm', '-rf', bdir])
            os.makedirs(bdir)
            rc, out = _sh(['cmake', '-G', 'Ninja', '-S', REPO, '-B', bdir,
                           '-DCMAKE_BUILD_TYPE=', '-DCMAKE_C_COMPILER=' + v['cc'],
                           '-DCMAKE_CXX_COMPILER=' + v['cxx'],
                           '-DCMAKE_C_FLAGS=' + v['c'], '-DCMAKE_CXX_FLAGS=' + v['cxxf']])
            if rc != 0:
                sys.stderr.write(out.decode('latin1')[-4000:])
                raise HarnessError('cmake failed for variant ' + variant)
            open(stamp, 'w').write(want)
        rc, out = _sh(['ninja', '-C', bdir] + targets)
        if rc != 0:
            sys.stderr.write(out.decode('latin1')[-6000:])
            raise HarnessError('build failed for variant ' + variant)
    finally:
        fcntl.flock(lock, fcntl.LOCK_UN)
        lock.close()
    return {'dfs': os.path.join(bdir, 'dfs', 'dfs'),
            'basic': os.path.join(bdir, 'basic', 'bbcbasic_to_text'),
            'dir': bdir}


def ensure_many(variants):
    """Build several variants concurrently (each is itself parallel)."""
    import concurrent.futures as cf
    with cf.ThreadPoolExecutor(max_workers=len(variants)) as ex:
        futs = {n: ex.submit(ensure, n) for n in variants}
        return {n: f.result() for n, f in futs.items()}


def harness(name, sources, extra_flags='', variant_flags=None, repo_sources=(), libs=''):
    """Compile a C++ harness from /verif/harness against repo sources.

    Rebuilt whenever any input is newer than the output (cheap: a few files).
    """
    os.makedirs(BUILD_ROOT, exist_ok=True)
    out = os.path.join(BUILD_ROOT, 'h-' + name)
    lock = open(out + '.lock', 'w')
    fcntl.flock(lock, fcntl.LOCK_EX)
    try:
        srcs = [os.path.join(VERIF, 'harness', s) for s in sources] + \
               [os.path.join(REPO, s) for s in repo_sources]
        flags = variant_flags if variant_flags is not None else VARIANTS['san']['cxxf']
        cmd = ['g++', '-std=gnu++17'] + flags.split() + extra_flags.split() + \
              ['-I' + os.path.join(REPO, 'dfs'), '-o', out] + srcs + libs.split()
        # dependencies: every header in dfs/ as well
        deps = list(srcs)
        d = os.path.join(REPO, 'dfs')
        deps += [os.path.join(d, f) for f in os.listdir(d) if f.endswith('.h')]
        stamp = out + '.cmd'
        newest = max(os.path.getmtime(p) for p in deps)
        if (os.path.exists(out) and os.path.getmtime(out) >= newest and
                os.path.exists(stamp) and open(stamp).read() == ' '.join(cmd)):
            return out
        rc, o = _sh(cmd)
        if rc != 0:
            sys.stderr.write(o.decode('latin1')[-6000:])
            raise HarnessError('harness build failed: ' + name)
        open(stamp, 'w').write(' '.join(cmd))
        return out
    finally:
        fcntl.flock(lock, fcntl.LOCK_UN)
        lock.close()


if __name__ == '__main__':
    t = time.time()
    names = sys.argv[1:] or list(VARIANTS)
    r = ensure_many(names)
    for n in names:
        print(n, r[n]['dir'])
    print('built in %.1fs' % (time.time() - t))
