"""Generates /verif/MANIFEST.json from the table below (python3 -m vf.manifest)."""
import json
import os
import subprocess

from . import VERIF, GUARD

CHECKS = {
    'C01': dict(
        category='exploration', design_ref='DESIGN.md section 2, C01',
        technique='reference-model monitor over generated discs with known truth, on the ASan+UBSan build',
        text='Generated well-formed Acorn/Watford/Opus discs in ssd/sdd/dsd/ddd containers whose file bodies are '
             'known by construction; every type --binary / type / list / dump / extract-files result is compared '
             'byte-for-byte with the truth (documented renderings).  Exploration: reach comes from generator '
             'diversity (all high-bit combinations of start and length, boundary lengths, 0..31/62 files, every '
             'spelling of a name); the evidence counts what was actually compared.',
        note='Trusts the disc serialiser of vf.discmodel (written from the format description, validated against '
             'the repository golden images) and the Python renderers.  HDFS excluded (documented as unsupported).'),
    'C02': dict(
        category='exploration', design_ref='DESIGN.md section 2, C02',
        technique='reference-model monitor: independent catalogue decoder vs info / cat / show-titles / .inf output',
        text='Generated catalogues with known field values; every info line is compared field by field, cat is '
             'compared by information content (title, cycle, option, density, drive, multiset of entries with lock '
             'marks, sortedness) in all ui styles, show-titles exactly, every .inf field incl. an independent '
             'XMODEM CRC.  The mixed high-bits byte is swept over all 160 values a well-formed disc can hold '
             '(start_hi + len_hi <= 3) in every run; low words include the boundary values.',
        note='Column layout of cat/info is not judged.  Names avoid . : # * " and the name L.  Trusts the '
             'serialiser and decoder in vf.discmodel / vf.refmodel.'),
    'C14': dict(
        category='exploration', design_ref='DESIGN.md section 2, C14',
        technique='reference-model monitor: sector ownership model vs free / space / sector-map / extract-unused, plus cross-command conservation',
        text='Generated non-overlapping layouts (0..31/62 files, zero-length files, gaps anywhere, all four Watford '
             'half combinations, every Opus volume); free numbers, the multiset of space gaps and their total, '
             'every sector-map cell and the extract-unused file set (names, sizes, fingerprinted contents) are '
             'compared with the ownership model, and extract-unused is compared with the runs sector-map itself '
             'shows as unowned.',
        note='Used-sector figure of an Opus volume without non-empty files is not judged; labels of catalogue '
             'sectors need only be neither "-" nor a file label.'),
    'C15': dict(
        category='exploration', design_ref='DESIGN.md section 2, C15',
        technique='reference-model monitor: documented wildcard matcher / name resolver vs info, type, list, dump',
        text='For every printing character (regex metacharacters included) a catalogue holding it in every position '
             'of short names is queried with the one- and two-character patterns around it; random catalogues over '
             'small alphabets are queried with patterns derived from their names under random --dir/--drive '
             'defaults and Opus volume letters (discs with 1-8 volumes; volume A also by the bare drive number); '
             'type/list/dump are probed with present and absent names, names beginning with - through `type --`.',
        note='Directory letters are probed in matching case for type/list/dump; catalogue names never contain '
             '. : # * or space.'),
    'C04': dict(
        category='exploration', design_ref='DESIGN.md section 2, C04',
        technique='fingerprint oracle on dump-sector output plus hook invariant on recorded file positions (S/F event log)',
        text='Every sector of every generated surface carries a unique fingerprint; dump-sector on boundary and random '
             '(track, sector) addresses of ssd/sdd, dsd/ddd and MMB slots must show the sector stored at the '
             'documented offset, and the S/F hook records of the same read must carry that position.  Out-of-range '
             'addresses, reads past the end of truncated files (always including the sector that straddles the cut) '
             'and every reading command on MMB slots with status F0/FF/illegal must fail with a diagnostic and no data.',
        note='MMB drive numbers are taken under --drive-first.  Two-sided non-interleaved ssd/sdd images are probed '
             'with side 1 expected on drive 2.'),
    'C17': dict(
        category='fault_enumeration', design_ref='DESIGN.md section 2, C17',
        technique='boundary fault enumeration with unique-sector attribution of every output block and V/S hook limit invariant',
        text='Catalogue entries ending boundary-2..boundary+3 sectors around the end of every Opus volume A-H (tables in and out of disc order), each '
             'side of dsd/ddd and of two-sided HFE/HxC flux images, one-sided images and MMB slots; type --binary, dump and extract-files are judged: no '
             'output block (full or partial) may equal a container sector outside the region, overruns must fail '
             'with a diagnostic, fitting entries must be delivered; the Volume/FileView hook records must never be '
             'forwarded at or past the limit.  The run is inconclusive unless reads beyond a limit were observed in '
             'all five contexts.',
        note='Surfaces above 1023 sectors cannot be overrun at the surface end by a 10-bit start sector.'),
    'C03': dict(
        category='exploration', design_ref='DESIGN.md section 2, C03',
        technique='reference-model monitor: lister written from doc/bbcbasic.5 vs bbcbasic_to_text output on generated programs',
        text='Generated well-formed programs for all 10 dialect names (every byte valid for the dialect used outside '
             'strings, two-byte extensions, PDP11 0xC8 rule, 0x8D targets swept, strings with bytes 0x01-0xFF incl. '
             'loop keywords, nested/multiple loops per line, line numbers 0 and maximum, lines up to 255 bytes) are '
             'listed with LISTO values from a file and from standard input and compared byte for byte with a '
             'reference lister whose uniform token table is parsed from doc/bbcbasic.5.',
        note='The reference reproduces all 21 golden listings of the repository.  Inputs the documents leave open '
             '(0x7F outside ARM/Mac, 0xFB for Mac, openers before closers on one line, negative depth) are not generated.'),
    'C08': dict(
        category='exploration', design_ref='DESIGN.md section 2, C08',
        technique='sanitizer monitoring (ASan+UBSan, MSan, valgrind memcheck, pattern-init differential) plus returned-from-main hook record',
        text='Hostile inputs (random bytes, mutated/truncated/extended programs, degenerate lines, thousands of unclosed '
             'FOR/REPEAT or stray NEXT/UNTIL carried over many lines in both framings) x command lines '
             '(10 dialects or none, LISTO valid/invalid, file/stdin/several/missing files, unknown options, --help, -D) '
             'run on the ASan+UBSan build (signals, reports, status in {0,1}, RET hook record present, diagnostic on '
             'failure), the MemorySanitizer build, the release vs pattern-initialised builds (outputs must agree) '
             'and, sampled, under valgrind memcheck.',
        note='Environment faults other than input content (ENOMEM, EIO) are out of scope; write faults are C11.'),
    'C09': dict(
        category='fault_enumeration', design_ref='DESIGN.md section 2, C09',
        technique='exhaustive prefix enumeration and structure-aware single-byte corruption judged by a strict reference validator; metamorphic multi-file oracle',
        text='Every proper non-empty prefix of generated programs must be rejected with a diagnostic and print a '
             'byte-prefix of the intact listing; single-byte corruptions of start byte, length, terminator, tokens, '
             '0x8D / extension codes at end of line and the end marker are judged by the strict reference validator '
             '(still-valid edits must list as the reference does); 2-4 input files in several orders must give the '
             'concatenation and the maximum status of the stand-alone runs.',
        note='Inputs the documents leave open are skipped (counted as ambiguous_skipped in the evidence).'),
    'C11': dict(
        category='fault_enumeration', design_ref='DESIGN.md section 2, C11',
        technique='write-fault injection (RLIMIT_FSIZE at exact offsets, EPIPE via a 4 KiB pipe, /dev/full, obstructed output names) with an oracle over exit status, stderr and delivered bytes',
        text='Every command of both tools with the output device refusing writes from byte n: all n in 0..L for short '
             'outputs, else 0..8/0..64, every multiple of 4096 +-2, L-2..L+1 and random offsets (regular file + '
             'RLIMIT_FSIZE with SIGXFSZ ignored), a minimal pipe whose reader leaves after n bytes (SIGPIPE ignored), '
             '/dev/full; extract-files / extract-unused with RLIMIT_FSIZE below the largest output file, an output '
             'name occupied by a directory, a symlink to /dev/full or a dangling symlink, and missing destinations.  '
             'n < L requires non-zero status and a diagnostic; n >= L requires the fault-free result.  Release and '
             'ASan+UBSan builds.',
        note='A pipe offset is judged only when the output exceeds n + pipe capacity (some write is then certain to be '
             'refused).  stderr is a pipe and never limited.'),
    'C12': dict(
        category='exploration', design_ref='DESIGN.md section 2, C12',
        technique='file-system monitor: before/after content snapshot of a sandbox tree plus strace -e trace=%file on a sample',
        text='Hostile catalogues (name and directory bytes over 0x01-0x7F incl. / .. - control and shell '
             'metacharacters) extracted under several --dir settings into a destination 6 levels deep with decoy files '
             'at every level (cwd elsewhere, destination given absolute/relative, with ./ and .// prefixes, as the mirror '
             'of an absolute decoy path below the current directory, with and without trailing slash); '
             'every change must lie directly inside the destination, none may occur for non-extract commands, images '
             'must stay byte-identical; a sample of runs is traced with strace and every creating/modifying/removing '
             'system call is checked as well.',
        note='The anonymous temporary file used for decompressing .gz images is whitelisted by its O_TMPFILE / '
             'unlinked-temp signature.'),
    'C05': dict(
        category='exploration', design_ref='DESIGN.md section 2, C05',
        technique='metamorphic monitor: the same generated disc as sector dump and as HFE v1 / HFE v3 / HxC MFM flux image, every command result compared',
        text='Generated discs (Acorn/Watford/Opus; FM 10 spt, MFM 16/18 spt; 35/40/80 tracks; one or two sides) are '
             'encoded by an independent FM/MFM encoder with random legal gap/sync lengths (gap 2 up to the controller '
             'window: FM exactly 30 bytes, MFM one inside 43), sector order, index marks, '
             'per-track length jitter, tightly packed tracks and both LUT length conventions, as HFE v1, HFE v3 with '
             'NOP/SETINDEX/SETBITRATE/SKIPBITS 0-7 inserted anywhere (also a lone SKIPBITS after the last sector of '
             'every track, and stale sector IDs without a record between the records of a track), and HxC MFM; cat, free, show-titles, info, space, '
             'type --binary, sector-map, dump-sector, extract-files and extract-unused must give the same stdout and '
             'status as on the ssd/sdd/dsd/ddd of the same disc.',
        note='The sector-dump run is the reference (itself checked by C01/C02/C04/C14).  16-spt discs are compared '
             'at file/catalogue level only.  SKIPBITS semantics follow the HxC reference implementation.'),
    'C06': dict(
        category='fault_enumeration', design_ref='DESIGN.md section 2, C06',
        technique='fault injection on recorded tracks with a truth oracle (CRC-collision-at-home excuse) and an independent bit-level scanner, run against the real decoders under ASan+UBSan; fingerprint attribution at image level',
        text='A harness linked against the repository decoders receives valid FM/MFM tracks subjected to bit flips, cell '
             'insertions/deletions, zeroed runs and truncation aimed at sync / ID mark / ID field / gap2 / data mark / data '
             '/ CRC (incl. lost records, record+next-header double faults, fields re-encoded with legal clocks and a stale '
             'CRC, and recorded CRCs wrong by exactly the pattern that leaves each single residue bit): every yielded sector must be CRC-valid in '
             'the damaged stream at the home position of its address.  Arbitrary streams are judged by an independent '
             'scanner that finds every CRC-valid ID and data field at every cell offset.  Damaged HFE v1/v3 and HxC MFM '
             'images are read with the real dfs and every delivered sector is attributed by fingerprint.',
        note='Data marks are recorded within the controller window of their ID.  CRC-16 collisions at home are counted '
             'as benign, never reported.'),
    'C07': dict(
        category='exploration', design_ref='DESIGN.md section 2, C07',
        technique='sanitizer monitoring (ASan+UBSan+hardened libstdc++, NDEBUG and assertion builds) of structure-aware hostile inputs, with returned-from-main hook record, watchdog and RSS monitor',
        text='Valid base images of all seven extensions (incl. CRC-valid but unusual flux recordings: other sector sizes, '
             'wrong address fields, duplicate/surplus/1-based records, deleted marks) are mutated (header-biased edits, '
             'truncation at every structure boundary +-1 and at 0..32 bytes, extreme length/offset/count fields, random '
             'bytes, block operations, valid and hostile gzip wrappings) and run with fuzzed command lines (all '
             'commands, drive numbers, names, wildcards, options, --verbose, second image, missing --file).  Every '
             'execution is screened for signals, status outside {0,1,2}, missing RET record, sanitizer / assertion '
             'reports, allocations above 256 MiB, hangs (confirmed by a 40 s re-run) and silent failures; a release-'
             'build run adds a 512 MiB RSS monitor.',
        note='ASan cannot see intra-object over-reads; environment faults (tmpfile, zlib memory) are out of scope.'),
    'C10': dict(
        category='fault_enumeration', design_ref='DESIGN.md section 2, C10',
        technique='metamorphic monitor (image vs its .gz) plus exhaustive truncation / single-bit-flip enumeration of small gzip streams with zlib as the reference for validity',
        text='Every container type (incl. sector counts where only the file-name hints decide the density, tiny images, '
             'MMB, flux, half-blank two-sided dumps and hostile images) is compared with its gzip copy over levels 0-9, '
             'optional header fields, compressed sizes on/next to multiples of 512/1024/32768 and 2-4 members with '
             'boundaries on, off and 1-3 bytes either side of the 512-byte input buffer, under paths that hold .gz and image extensions earlier '
             'on; every command and extract-files must agree.  For small '
             'one- and two-member streams every truncation point and every (third, in quick) single-bit flip is run: '
             'zlib-valid => must equal the decompressed image, otherwise => diagnostic, non-zero status, no output.',
        note='zlib via Python decides stream validity (same library as the tool).  Trailing data that does not begin a '
             'gzip member is not judged.'),
    'C13': dict(
        category='exploration', design_ref='DESIGN.md section 2, C13',
        technique='reference-model monitor (slot totals, listings, volume sets, geometry) plus metamorphic monitor over marker-imitating file bodies',
        text='One catalogue is written with seven body variants (random, 0xAA runs, Watford marker at the start of a file '
             'in the first data sector, catalogue-like sectors at side-2 offsets, zeros, incomplete Opus tables in sector '
             '16, noise in free space): slot total, complete info listing and geometry must match the model and cat / '
             'info / free / show-config must be identical across variants.  Directed families: Watford discs with a file at '
             '0x102/0x202/0x302, Acorn discs whose 31st entry starts in sector 2 with the marker bytes, Opus discs with 1-8 '
             'volumes in and out of letter order on 35/40/80 tracks, 35-track two-sided ssd/sdd files with catalogue-like '
             'bodies where a 40-track second side would begin.',
        note='Forged Opus tables are deliberately incomplete (the statement excludes complete forgeries).  HDFS is not judged.'),
    'C16': dict(
        category='exploration', design_ref='DESIGN.md section 2, C16',
        technique='history monitor: option histories checked after every prefix against hook attach events, --show-config, the allocation rules of the statement and what each drive actually delivers',
        text='Option histories over {--drive-first, --drive-physical, one-sided ssd, two-sided dsd, one-sided HFE, two-sided '
             'HxC MFM, MMB}: exhaustive for short histories, random up to length 6.  After every prefix: attach events '
             'distinct and complete, --show-config equal to them, earlier surfaces unmoved, physical policy never on the '
             'opposite side of another image and surfaces at n, n+2, ..., --drive-first on the lowest free numbers; then '
             'drives are read by argument, --drive and :k. prefix and must deliver the unique title / file of the surface '
             'attached there; empty drives must deliver nothing; a drive argument with a junk suffix must fail or address '
             'the drive its leading number names.  A surface is identified by the unique title it delivers (one '
             'show-titles run per prefix) and, where that free text can be read, by the file name and side / slot number '
             'of its description.',
        note='Which admissible number the physical policy picks is not judged; the wording of descriptions is not judged.'),
    'C18': dict(
        category='exploration', design_ref='DESIGN.md section 2, C18',
        technique='metamorphic monitor over option insertions, option order, --ui and COLUMNS (pty and file), on the ASan+UBSan build',
        text='Valid images of every container (incl. Opus multi-volume, flux v1/v3/HxC with stale sector IDs on some tracks, MMB, two-sided files with a blank second side) and hostile images x commands: '
             'repeat, --verbose / --show-config / both at random option positions, --verbose first, reordered --drive/'
             '--dir/--ui must leave stdout and status unchanged; cat under --ui x 13 COLUMNS values on a pty and a file '
             'must report the same entries, locks, cycle, option and drive; other commands must not change with --ui; a '
             'sanitizer report appearing only with a diagnostic option is a violation.',
        note='The layout of cat is not judged.'),
    'C19': dict(
        category='exploration', design_ref='DESIGN.md section 2, C19',
        technique='differential monitoring over four build configurations (NDEBUG, assertions on, asserts evaluated-but-not-fatal, pattern-initialised locals)',
        text='Inputs from the C01-C03 generators (incl. runs without --dialect) and the hostile corpora of C07/C08 run on '
             'rel, dbg, asserteval and pattern builds of the same tree; (stdout, status) must agree, except that dbg may '
             'stop on a failed assertion; a hang in one configuration only is a violation; rel vs asserteval isolates '
             'side effects inside assert(), rel vs pattern isolates dependence on uninitialised locals.',
        note='Inputs on which the assertion build aborts are excluded by the statement and only counted.'),
}

PENDING_REASON = 'check not built yet in this revision of /verif (see DESIGN.md section 7 for the order of work)'


def hook_commits():
    try:
        out = subprocess.run(['git', '-C', '/repo', 'log', '--format=%H %s'], stdout=subprocess.PIPE).stdout.decode()
    except Exception:
        return []
    return [l.split()[0] for l in out.splitlines() if 'verif hooks' in l]


def generate():
    props = [json.loads(l) for l in open(os.path.join(VERIF, 'properties.jsonl'))]
    checks = []
    na = []
    for p in props:
        pid = p['id']
        c = CHECKS.get(pid)
        if not c:
            na.append({'property_id': pid, 'reason': PENDING_REASON})
            continue
        checks.append({
            'property_id': pid,
            'quick_cmd': 'bin/check %s --tier quick' % pid,
            'thorough_cmd': 'bin/check %s --tier thorough' % pid,
            'evidence_file': 'evidence/%s.json' % pid,
            'replay_cmd_template': 'bin/check %s --replay {path}' % pid,
            'engine': 'vf',
            'level_claimed': {'category': c['category'], 'text': c['text'], 'design_ref': c['design_ref']},
            'level_note': c['note'],
            'technique': c['technique'],
        })
    m = {
        'version': 1,
        'setup_cmd': 'python3 -m vf.build',
        'hooks': {
            'guard': GUARD,
            'enable': 'every build variant of vf/build.py passes -D%s in CMAKE_C_FLAGS/CMAKE_CXX_FLAGS; the hooks '
                      'write event records to the descriptor named by BEEBTOOLS_VERIF_TRACE_FD' % GUARD,
            'baseline_off_cmd': 'bin/baseline_off',
            'source_commits': hook_commits(),
            'add_only': True,
        },
        'engines': [{'name': 'vf', 'path': 'vf/', 'serves_properties': [c['property_id'] for c in checks],
                     'kind_free_text': 'runtime monitoring: sanitizer builds of the real tools driven by generated / '
                                       'hostile workloads, reference-model and metamorphic oracles, fault injectors, '
                                       'hook event logs'}],
        'checks': checks,
        'not_applicable': na,
        'notes': 'See DESIGN.md.  Exit 2 from a check means inconclusive (harness failure), never a verdict.',
    }
    with open(os.path.join(VERIF, 'MANIFEST.json'), 'w') as f:
        json.dump(m, f, indent=1)
    return m


if __name__ == '__main__':
    m = generate()
    print('MANIFEST.json: %d checks, %d not claimed' % (len(m['checks']), len(m['not_applicable'])))
