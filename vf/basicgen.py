"""Generator of well-formed tokenised BBC BASIC programs per dialect, from the
token tables of doc/bbcbasic.5 (via vf.basicref)."""
from .basicref import (FAMILY, BE, LE, EXT_C6, EXT_C7, EXT_C8, single_token, Invalid)

DIALECTS = ['6502', '32000', 'PDP11', 'Z80', '8086', 'ARM', 'Mac', 'Windows', 'SDL', 'MacOSX']
LOOP = (0xE3, 0xED, 0xF5, 0xFD)       # FOR NEXT REPEAT UNTIL

_VB = {}


def valid_bytes(fam):
    """single bytes that are well-defined outside strings for the family
    (bytes whose meaning the documents leave open are not generated: 0x7F
    outside ARM/Mac, 0xFB for Mac)"""
    if fam in _VB:
        return _VB[fam]
    v = []
    for b in range(1, 256):
        if b in (0x0D, 0x22, 0x8D, 0x7F):
            continue
        if fam in ('ARM', 'Mac') and b in (0xC6, 0xC7, 0xC8):
            continue
        if fam == 'PDP11' and b == 0xC8:
            continue
        if fam == 'Mac' and b == 0xFB:
            continue
        try:
            s = single_token(fam, b)
            if s is not None:
                v.append(b)
        except (Invalid, KeyError):
            pass
    if fam in ('ARM', 'Mac'):
        v.append(0x7F)
    _VB[fam] = v
    return v


def enc_target(t):
    hi, lo = t >> 8, t & 0xFF
    b1 = (((lo & 0xC0) >> 2) | ((hi & 0xC0) >> 4)) ^ 0x54
    return bytes([0x8D, b1, (lo & 0x3F) | 0x40, (hi & 0x3F) | 0x40])


def gen_line_body(r, fam, vb, maxlen=40, targets=None, want=None):
    """token bytes of one line without loop keywords outside strings; built
    from atomic pieces so that no multi-byte token or string is cut"""
    out = bytearray()
    n = r.choice([0, 1, 2, 3, 5, 8, 12, r.randrange(0, 30)])
    if maxlen > 100:
        n = r.randrange(60, 200)
    pieces = []
    if want:
        pieces.append(bytes(want))
    for _ in range(n):
        k = r.random()
        if k < 0.45:
            pieces.append(bytes([r.choice(vb)]))
        elif k < 0.57:
            t = targets.pop() if targets else r.choice([0, 1, 255, 256, 32767, 32768, 65279, 65535, r.randrange(65536)])
            pieces.append(enc_target(t))
        elif k < 0.75:
            sl = r.choice([0, 1, 2, 5, r.randrange(0, 12)])
            st = bytes(r.choice(_STRBYTES) if r.random() < 0.7 else r.choice(_HOT) for _ in range(sl))
            pieces.append(b'"' + st + b'"')
        elif k < 0.87 and fam in ('ARM', 'Mac'):
            intro = r.choice([0xC6, 0xC7, 0xC8])
            m = {0xC6: EXT_C6, 0xC7: EXT_C7, 0xC8: EXT_C8}[intro][fam]
            pieces.append(bytes([intro, r.choice(sorted(m))]))
        elif k < 0.87 and fam == 'PDP11':
            pieces.append(bytes([0xC8, r.choice([0x98, 0x41, 0xF1, 0x20])]))
        else:
            pieces.append(bytes([r.choice(vb)]))
    for p in pieces:
        if len(out) + len(p) > maxlen:
            break
        out += p
    return bytes(out)


_STRBYTES = [x for x in range(1, 256) if x not in (0x22, 0x0D)]
# bytes that are dangerous inside strings: loop keywords, extension introducers, line-number marker
_HOT = [0xE3, 0xED, 0xF5, 0xFD, 0xC6, 0xC7, 0xC8, 0x8D, 0x7F, 0x01, 0x18, 0x1F]


def frame(dialect, lines):
    """lines: list of (number, body bytes)"""
    prog = bytearray()
    for num, l in lines:
        if dialect in BE:
            prog += bytes([0x0D, num >> 8, num & 0xFF, len(l) + 4]) + l
        else:
            prog += bytes([len(l) + 4, num & 0xFF, num >> 8]) + l + b'\x0d'
    prog += b'\x0d\xff' if dialect in BE else b'\x00\xff\xff'
    return bytes(prog)


def gen_prog(r, dialect, maxlines=14, targets=None, sweep_tokens=None, long_lines=False, stray_closers=False):
    """A well-formed program.  Loop depth never goes negative and an opener
    never precedes a closer of the same kind on one line (the documents do
    not define the indentation of those cases)."""
    fam = FAMILY[dialect]
    vb_all = valid_bytes(fam)
    vb = [b for b in vb_all if b not in LOOP]
    sweep = list(sweep_tokens or [])
    nlines = r.choice([0, 1, 2, 3, 6, maxlines, r.randrange(0, maxlines + 1)])
    bodies = []
    stack = []
    maxbody = 251 if dialect in BE else 251
    for i in range(nlines):
        want = None
        if sweep:
            want = [sweep.pop()]
        ml = r.choice([251, 200]) if (long_lines and r.random() < 0.2) else 40
        body = bytearray(gen_line_body(r, fam, vb, ml, targets, want))
        k = r.random()
        # structure: closers first, then the body, then openers; several per line allowed
        pre = bytearray()
        post = bytearray()
        closed = []
        opened = []
        if stack and k < 0.35:
            nclose = r.randint(1, min(3, len(stack)))
            for j in range(nclose):
                o = stack[-1 - j]
                closed.append(o)
                pre.append(0xED if o == 0xE3 else 0xFD)
                if r.random() < 0.5:
                    pre += b':'
        if r.random() < 0.35:
            for _ in range(r.choice([1, 1, 2, 3])):
                o = r.choice([0xE3, 0xF5])
                opened.append(o)
                post.append(o)
                if r.random() < 0.5:
                    post += b'I'
        if stray_closers and r.random() < 0.25:
            # closers without an open loop (IF..THEN NEXT, stray UNTIL): the depth goes negative
            for _ in range(r.choice([1, 1, 2, 5])):
                pre.append(r.choice([0xED, 0xFD]))
        if len(pre) + len(body) + len(post) > maxbody:
            body = bytearray()
        for _ in closed:
            stack.pop()
        stack.extend(opened)
        line = bytes(pre + body + post)
        bodies.append(line)
    while stack and r.random() < 0.8:
        o = stack.pop()
        bodies.append(bytes([0xED if o == 0xE3 else 0xFD]))
    lines = []
    num = 0
    top = 65279 if dialect in BE else 65535
    for l in bodies:
        q = r.random()
        if q < 0.08:
            num = 0
        elif q < 0.12:
            num = top
        else:
            num = min(top, num + r.randrange(1, 3000))
        lines.append((num, l))
    return frame(dialect, lines), lines
