"""Reference models (oracles) written from doc/dfs.1, doc/mmb.5 and the
property statements -- not from the implementation.  Where the documents do
not fix a layout, the functions here extract the *information content* of
the tool's output and compare that."""
import re

from .discmodel import SECTOR


def sign_extend(a18):
    """doc/dfs.1 SIGN EXTENSION OF ADDRESSES: bits 23..18 copy bit 17, bits
    16..0 keep their value."""
    return (a18 | 0xFC0000) if (a18 & 0x20000) else a18


def xmodem_crc(data):
    crc = 0
    for b in data:
        crc ^= b << 8
        for _ in range(8):
            crc = ((crc << 1) ^ 0x1021) & 0xFFFF if crc & 0x8000 else (crc << 1) & 0xFFFF
    return crc


_INFO = re.compile(rb'^(.)\.([^ ]{0,7}) +(?:(L) +)?([0-9A-F]{6}) ([0-9A-F]{6}) ([0-9A-F]{6}) ([0-9A-F]{3})$')


def parse_info_line(line):
    """-> dict or None.  Layout (column padding) is not judged, fields are."""
    m = _INFO.match(line)
    if not m:
        return None
    return {'dir': m.group(1).decode('latin1'), 'name': m.group(2).decode('latin1'),
            'locked': m.group(3) is not None, 'load': int(m.group(4), 16), 'exec': int(m.group(5), 16),
            'length': int(m.group(6), 16), 'start': int(m.group(7), 16)}


def expected_info(e):
    return {'dir': e.dir, 'name': e.name, 'locked': e.locked, 'load': sign_extend(e.load),
            'exec': sign_extend(e.exec_), 'length': e.length, 'start': e.start}


def render_type(body):
    return body.replace(b'\r', b'\n')


def render_list(body):
    """Each line is preceded with a line number, starting from 1 (doc/dfs.1);
    the repo's golden test data fixes '%4d ' and CR -> newline."""
    out = bytearray()
    n = 1
    at_start = True
    for b in body:
        if at_start:
            out += b'%4d ' % n
            n += 1
            at_start = False
        if b == 0x0D:
            out += b'\n'
            at_start = True
        else:
            out.append(b)
    return bytes(out)


_DUMPROW = re.compile(rb'^([0-9A-Fa-f]+)((?: (?:[0-9A-F]{2}|\*\*)){8}) (.{8})$', re.S)


def check_dump(out, body):
    """8-byte hex+ASCII rows.  The radix of the offset column is not
    documented: decimal or hexadecimal accepted.  Returns error or None."""
    rows = []
    # rows are newline separated but the text column may hold any byte except
    # that non-printing ones are shown as '.', so splitting on \n is safe.
    lines = out.split(b'\n')
    if lines and lines[-1] == b'':
        lines.pop()
    nrows = (len(body) + 7) // 8
    if len(lines) != nrows:
        return 'dump has %d rows, expected %d for %d bytes' % (len(lines), nrows, len(body))
    for i, line in enumerate(lines):
        m = _DUMPROW.match(line)
        if not m:
            return 'row %d is not an 8-byte hex+ASCII row: %r' % (i, line[:60])
        off = m.group(1)
        if int(off, 10) != i * 8 if off.isdigit() else True:
            try:
                if int(off, 16) != i * 8:
                    return 'row %d has offset %r' % (i, off)
            except ValueError:
                return 'row %d has offset %r' % (i, off)
        chunk = body[i * 8:(i + 1) * 8]
        hexs = m.group(2).split(b' ')[1:]
        exp_hex = [b'%02X' % b for b in chunk] + [b'**'] * (8 - len(chunk))
        if hexs != exp_hex:
            return 'row %d hex %r, expected %r' % (i, b' '.join(hexs), b' '.join(exp_hex))
        exp_txt = bytes(b if 0x20 <= b <= 0x7E else 0x2E for b in chunk) + b'.' * (8 - len(chunk))
        if m.group(3) != exp_txt:
            return 'row %d text %r, expected %r' % (i, m.group(3), exp_txt)
    return None


def parse_inf(line):
    """NAME LOAD EXEC LEN [Locked] CRC=XXXX -> dict or None"""
    try:
        t = line.decode('latin1')
    except Exception:
        return None
    if not t.endswith('\n'):
        return None
    f = t[:-1].split()
    if len(f) not in (5, 6):
        return None
    try:
        d = {'name': f[0], 'load': int(f[1], 16), 'exec': int(f[2], 16), 'length': int(f[3], 16)}
    except ValueError:
        return None
    rest = f[4:]
    d['locked'] = False
    if len(rest) == 2:
        if rest[0] not in ('Locked', 'L'):
            return None
        d['locked'] = True
        rest = rest[1:]
    m = re.match(r'^CRC=([0-9A-Fa-f]{4})$', rest[0])
    if not m:
        return None
    d['crc'] = int(m.group(1), 16)
    return d


# ---------------------------------------------------------------- free etc.

def free_numbers(surface, vol):
    """(files_free, sectors_free, files_used, sectors_used) per the property:
    used = one past the highest sector any file occupies (the catalogue's
    own sectors when there is none)."""
    cat = vol.cat
    slots = 62 if surface.variant == 'watford' else 31
    ents = cat.all_entries()
    used = surface.cat_sectors()
    for e in ents:
        if e.length:
            used = max(used, e.start + e.nsectors)
    return slots - len(ents), cat.total - used, len(ents), used


_FREE = re.compile(rb'^\s*(\d+) Files ([0-9A-F]+) Sectors\s+([\d,]+) Bytes (Free|Used)\s*$')


def parse_free(out):
    d = {}
    for line in out.splitlines():
        m = _FREE.match(line)
        if not m:
            return None
        d[m.group(4).decode()] = (int(m.group(1)), int(m.group(2), 16), int(m.group(3).replace(b',', b'')),
                                  m.group(3))
    if set(d) != {'Free', 'Used'}:
        return None
    return d


def thousands(n):
    return ('{:,}'.format(n)).encode()


def gaps(surface, vol):
    """maximal runs of unowned sectors of one volume, in volume numbering:
    list of (first, count)"""
    first = surface.cat_sectors()
    occupied = set()
    for e in vol.cat.all_entries():
        for k in range(e.nsectors):
            occupied.add(e.start + k)
    runs = []
    s = first
    limit = vol.cat.total
    while s < limit:
        if s in occupied:
            s += 1
            continue
        a = s
        while s < limit and s not in occupied:
            s += 1
        runs.append((a, s - a))
    return runs


def _gap_list(lines, i):
    """the hexadecimal gap sizes that follow a 'Gap sizes' heading, on however many lines the list is folded over
    (no document fixes the folding): -> (sizes, lines consumed) or (None, 0)"""
    gl = []
    used = 0
    while i + used < len(lines):
        toks = lines[i + used].split()
        if not toks:
            if used == 0:
                used = 1          # an empty list is printed as an empty line
            break
        if not all(re.match(rb'^[0-9A-Fa-f]+$', t) for t in toks):
            break
        gl += [int(t, 16) for t in toks]
        used += 1
    if used == 0:
        return None, 0
    return gl, used


def parse_space(out):
    """-> (list of gap sizes, total) for a single-drive `space` output"""
    lines = out.split(b'\n')
    if len(lines) < 3 or not lines[0].startswith(b'Gap sizes on disc'):
        return None
    gl, used = _gap_list(lines, 1)
    if gl is None:
        return None
    tot = None
    for line in lines[1 + used:]:
        m = re.match(rb'^Total space free = ([0-9A-Fa-f]+) sectors', line)
        if m:
            tot = int(m.group(1), 16)
    if tot is None:
        return None
    return gl, tot


def parse_sector_map(out):
    """-> list of labels in sector order"""
    cells = []
    for line in out.split(b'\n'):
        m = re.match(rb'^(\d+): (.*)$', line)
        if not m:
            continue
        if int(m.group(1)) != len(cells):
            return None
        cells.extend(m.group(2).split())
    return [c.decode('latin1') for c in cells]


def sector_label(surface, vol_label, e):
    if len(surface.volumes) > 1:
        return ':%s.%s.%s' % (vol_label, e.dir, e.name)
    return '%s.%s' % (e.dir, e.name)


def unused_runs(surface):
    """Whole-surface maximal runs of sectors nobody owns, as the sector map
    sees them: list of (first lba, count).  For non-Opus discs the sectors
    covered are those below the catalogue's total; for Opus the whole disc."""
    own = surface.owners()
    if surface.variant == 'opus':
        limit = surface.nsectors
    else:
        limit = surface.volumes[0].cat.total
    runs = []
    s = 0
    while s < limit:
        if s in own:
            s += 1
            continue
        a = s
        while s < limit and s not in own:
            s += 1
        runs.append((a, s - a))
    return runs


# ---------------------------------------------------------------- cat

def parse_cat(out, ui_hint=None):
    """Recover the information content of a `cat` listing without judging the
    layout: header text (everything up to the first blank line) and the entry
    tokens after it.  A lone 'L' token marks the preceding entry as locked.
    Returns dict(header=bytes, entries=[(dir or None, name, locked)], tail)."""
    text = out
    parts = text.split(b'\n\n', 1)
    header = parts[0]
    rest = parts[1] if len(parts) > 1 else b''
    entries = []
    tail = []
    for line in rest.split(b'\n'):
        if re.match(rb'^\d+ files of \d+ on \d+ tracks$', line.strip()) or line.strip() == b'No file':
            tail.append(line.strip())
            continue
        for tok in line.split():
            if tok == b'L' and entries and not entries[-1][2]:
                entries[-1] = (entries[-1][0], entries[-1][1], True)
                continue
            t = tok.decode('latin1')
            if len(t) >= 3 and t[1] == '.':
                entries.append((t[0], t[2:], False))
            else:
                entries.append((None, t, False))
    return {'header': header, 'entries': entries, 'tail': tail}


BOOT_WORDS = {0: 'off', 1: 'LOAD', 2: 'RUN', 3: 'EXEC'}


# ---------------------------------------------------------------- wildcards

def parse_afsp(pattern, cur_drive=0, cur_dir='$'):
    """Split [:drive[vol].][dir.]name -> (drive, vol, dirpat, namepat) or None
    when the syntax is not one the documents define."""
    p = pattern
    drive, vol = cur_drive, None
    if p.startswith(':'):
        m = re.match(r'^:(\d+)([A-Ha-h])?\.(.*)$', p, re.S)
        if not m:
            return None
        drive = int(m.group(1))
        vol = m.group(2).upper() if m.group(2) else None
        p = m.group(3)
    if len(p) >= 2 and p[1] == '.':
        dirpat, name = p[0], p[2:]
    else:
        dirpat, name = cur_dir, p
    if '.' in name or name == '':
        return None
    return drive, vol, dirpat, name


def wild_match(pat, s):
    """'#' any one char except '.', '*' any run except '.', letters fold
    case, everything else literal."""
    def fold(c):
        return c.lower() if ('a' <= c.lower() <= 'z') else c
    # dynamic programming
    n, m = len(pat), len(s)
    memo = {}

    def go(i, j):
        key = (i, j)
        if key in memo:
            return memo[key]
        if i == n:
            r = j == m
        elif pat[i] == '*':
            r = go(i + 1, j) or (j < m and s[j] != '.' and go(i, j + 1))
        elif j < m and pat[i] == '#':
            r = s[j] != '.' and go(i + 1, j + 1)
        elif j < m and fold(pat[i]) == fold(s[j]):
            r = go(i + 1, j + 1)
        else:
            r = False
        memo[key] = r
        return r
    return go(0, 0)


# ---------------------------------------------------------------- drives

def opposite(n):
    base = n - (n % 4)
    return base + ((n % 4) + 2) % 4


def allocate_physical(occupied, k):
    """smallest n such that n, n+2, .. are free and the opposite sides are
    not occupied by another image"""
    n = 0
    while True:
        want = [n + 2 * i for i in range(k)]
        ok = all(w not in occupied for w in want)
        if ok and k == 1 and opposite(n) in occupied:
            ok = False
        if ok and k == 2 and (n % 4) >= 2:
            ok = False
        if ok:
            return want
        n += 1


def parse_space_multi(out):
    """`space d1 d2 ...` -> (list of (selector, gap list, total), summary dict or None)"""
    blocks = []
    summary = {}
    lines = out.split(b'\n')
    i = 0
    cur = None
    while i < len(lines):
        line = lines[i]
        m = re.match(rb'^Gap sizes on disc (\S+):$', line)
        if m:
            gl, used = _gap_list(lines, i + 1)
            if gl is None:
                return None
            cur = [m.group(1).decode(), gl, None]
            blocks.append(cur)
            i += 1 + used
            continue
        m = re.match(rb'^Total space free = ([0-9A-Fa-f]+) sectors', line)
        if m and cur is not None:
            cur[2] = int(m.group(1), 16)
        m = re.match(rb'^Total space free in volume\s+(\S+) = ([0-9A-Fa-f]+) sectors', line)
        if m:
            summary[m.group(1).decode()] = int(m.group(2), 16)
        m = re.match(rb'^Total space free in all volumes = ([0-9A-Fa-f]+) sectors', line)
        if m:
            summary['*'] = int(m.group(1), 16)
        i += 1
    if any(b[2] is None for b in blocks):
        return None
    return blocks, summary
