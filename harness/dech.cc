// Decoder-level harness for C06: feeds track cell streams to the repository's
// own FM / MFM decoders and prints every sector they yield.
//
// stdin: a sequence of cases: 'F' | 'M', u32 (little-endian) byte count,
//        bytes (cells packed LSB-first in time, stride 1).
// stdout: per case "T <number of sectors>" then one line per sector:
//        "S <cyl> <head> <record> <size> <hex data> <crc hex>"
#include <cstdio>
#include <cstdint>
#include <vector>
#include <iostream>
#include "track.h"

int main()
{
  for (;;)
    {
      int k = getchar();
      if (k == EOF)
	break;
      unsigned char lenb[4];
      if (fread(lenb, 1, 4, stdin) != 4)
	return 2;
      uint32_t n = lenb[0] | (lenb[1] << 8) | (lenb[2] << 16) | (uint32_t(lenb[3]) << 24);
      std::vector<Track::byte> d(n);
      if (n && fread(d.data(), 1, n, stdin) != n)
	return 2;
      Track::BitStream bits(d, 0, 1);
      std::vector<Track::Sector> secs = (k == 'F')
	? Track::decode_fm_track(bits, false)
	: Track::decode_mfm_track(bits, false);
      printf("T %zu\n", secs.size());
      for (auto& s : secs)
	{
	  printf("S %u %u %u %zu ", s.address.cylinder, s.address.head,
		 s.address.record, s.data.size());
	  for (auto b : s.data)
	    printf("%02x", b);
	  printf(" %02x%02x\n", s.crc[0], s.crc[1]);
	}
      fflush(stdout);
    }
  return 0;
}
